"""C09 - annotations placed inside a gene cover the nucleotides that encode them."""
from antismash.common.secmet.features.feature import Feature

from .. import logic as L
from .c04 import SHAPE_PARTS, build, model_parts, shape_pre, shape_vars
from .common import Harness, canon_loc, cn, is_raised, parts_len, wf_parts

FT = "antismash.common.secmet.features.feature:"


def coding_pos(parts, strand, t):
    """record position of the t-th base in reading order; parts in biological order [(s, e), ...]"""
    pos, consumed = None, 0
    for part in parts:
        s, e = part[0], part[1]
        here = (s + (t - consumed)) if strand != -1 else (e - 1 - (t - consumed))
        pos = here if pos is None else L.If(t < consumed, pos, here)
        consumed = consumed + (e - s)
    return pos


def biological(parts, strand):
    return list(reversed(parts)) if strand == -1 and len(parts) > 1 else list(parts)


class SubLocation(Harness):
    pid, name = "C09", "sub_location"
    functions = [FT + "Feature.get_sub_location_from_protein_coordinates",
                 "antismash.common.secmet.locations:convert_protein_position_to_dna"]
    bound = ("gene with 1, 2 or 3 exons (symbolic exon boundaries, lengths need not be multiples of three), either strand, and "
             "origin-spanning two-exon genes and three-exon genes with two exons before the origin; protein range [s, e) symbolic with 0 <= s < e <= len//3; symbolic record length")
    outside = "more than 3 exons; fuzzy (Before/After) ends; exons overlapping by a frameshift base"
    task_paths = 200

    def variants(self, tier):
        out = []
        for shape in ("s", "j2", "j3", "o", "b", "o3"):
            for strand in (1, -1):
                out.append({"shape": shape, "strand": strand})
        return out

    def vars(self, var):
        d = {"n": "int", "ps": "int", "pe": "int", "t": "int"}
        d.update(shape_vars("g", var["shape"]))
        return d

    def gene_parts(self, var, v):
        return biological(model_parts("g", var["shape"], v), var["strand"])

    def pre(self, var, v):
        parts = model_parts("g", var["shape"], v)
        total = parts_len([(s, e) for s, e in parts])
        return L.And(shape_pre("g", var["shape"], v, v["n"]), 0 <= v["ps"], v["ps"] < v["pe"], 3 * v["pe"] <= total,
                     0 <= v["t"])

    def run(self, var, v):
        feature = Feature(build("g", var["shape"], v, var["strand"]), feature_type="CDS")
        loc = feature.get_sub_location_from_protein_coordinates(v["ps"], v["pe"])
        return {"parts": canon_loc(loc), "strand": loc.strand}

    def post(self, var, v, out):
        if is_raised(out):
            return [("no_raise_for_a_contained_range", False)]
        n, ps, pe, t = v["n"], v["ps"], v["pe"], v["t"]
        gene = self.gene_parts(var, v)
        res = [(p[0], p[1]) for p in out["parts"]]
        length = 3 * (pe - ps)
        want = coding_pos(gene, var["strand"], 3 * ps + t)
        got = coding_pos(res, var["strand"], t)
        return [("well_formed_inside_record", wf_parts(out["parts"], n)),
                ("three_bases_per_residue", parts_len(out["parts"]) == length),
                ("same_strand", out["strand"] == var["strand"] and all(p[2] == var["strand"] for p in out["parts"])),
                ("covers_the_encoding_bases_in_reading_order", L.Implies(t < length, got == want))]


class TTAMarker(Harness):
    pid, name = "C09", "tta_marker"
    functions = ["antismash.modules.tta.tta:TTAResults.new_feature_from_other", "antismash.modules.tta.tta:TTAResults.new_feature_from_basics"]
    bound = "gene with 1 or 2 exons (incl. origin-spanning), either strand, symbolic exon boundaries; codon index symbolic"
    outside = "more than 2 exons"

    def variants(self, tier):
        return [{"shape": sh, "strand": st} for sh in ("s", "j2", "o") for st in (1, -1)]

    def vars(self, var):
        d = {"n": "int", "codon": "int", "t": "int"}
        d.update(shape_vars("g", var["shape"]))
        return d

    def gene_parts(self, var, v):
        return biological(model_parts("g", var["shape"], v), var["strand"])

    def pre(self, var, v):
        total = parts_len(model_parts("g", var["shape"], v))
        return L.And(shape_pre("g", var["shape"], v, v["n"]), 0 <= v["codon"], 3 * v["codon"] + 3 <= total, 0 <= v["t"], v["t"] < 3)

    def multi_exon_region(self, var, v):
        """known finding C09-1: the TTA marker is placed at location.start + offset (forward) / location.end - offset - 3
        (reverse), which is only right while the codon lies entirely inside the exon that is first in reading order"""
        if var["shape"] == "s":
            return False
        if var["shape"] == "o":
            return True
        first = self.gene_parts(var, v)[0]
        return L.Not(3 * v["codon"] + 3 <= first[1] - first[0])

    def run(self, var, v):
        from antismash.modules.tta.tta import TTAResults
        feature = Feature(build("g", var["shape"], v, var["strand"]), feature_type="CDS")
        results = TTAResults("rec", 0.9, 0.5)
        marker = results.new_feature_from_other(feature, 3 * v["codon"])
        return {"parts": canon_loc(marker.location), "strand": marker.location.strand}

    def post(self, var, v, out):
        if is_raised(out):
            return [("no_raise", False)]
        gene = self.gene_parts(var, v)
        res = [(p[0], p[1]) for p in out["parts"]]
        t = v["t"]
        return [("three_bases", parts_len(out["parts"]) == 3),
                ("same_strand", out["strand"] == var["strand"]),
                ("marker_covers_the_codon", coding_pos(res, var["strand"], t) == coding_pos(gene, var["strand"], 3 * v["codon"] + t))]


HARNESSES = [SubLocation(), TTAMarker()]


class CodonStart(Harness):
    pid, name = "C09", "codon_start"
    functions = ["antismash.common.secmet.features.cds_feature:CDSFeature.from_biopython",
                 "antismash.common.secmet.features.feature:Feature.from_biopython",
                 "antismash.common.secmet.features.feature:Feature.to_biopython",
                 "antismash.common.secmet.locations:frameshift_location_by_qualifier",
                 "antismash.common.secmet.locations:_adjust_location_by_offset"]
    bound = "CDS with 1 or 2 exons, either strand, codon_start 1, 2 or 3, symbolic exon boundaries (first exon in reading order longer than 2 bases)"
    outside = "origin-spanning genes with codon_start (the repository asserts on them); more than 2 exons"

    def variants(self, tier):
        return [{"shape": sh, "strand": st, "codon_start": cs} for sh in ("s", "j2") for st in (1, -1) for cs in (1, 2, 3)]

    def vars(self, var):
        d = {"n": "int", "t": "int"}
        d.update(shape_vars("g", var["shape"]))
        return d

    def pre(self, var, v):
        parts = biological(model_parts("g", var["shape"], v), var["strand"])
        total = parts_len(parts)
        return L.And(shape_pre("g", var["shape"], v, v["n"]), parts[0][1] - parts[0][0] > 2, 0 <= v["t"],
                     total - (var["codon_start"] - 1) >= 6)   # room for the two residues of the given translation

    def run(self, var, v):
        from Bio.SeqFeature import SeqFeature
        from antismash.common.secmet.features import CDSFeature
        bio = SeqFeature(build("g", var["shape"], v, var["strand"]), type="CDS",
                         qualifiers={"codon_start": [str(var["codon_start"])], "translation": ["MA"], "locus_tag": ["x"]})
        cds = CDSFeature.from_biopython(bio)
        back = cds.to_biopython()[0]
        return {"adjusted": canon_loc(cds.location), "written": canon_loc(back.location),
                "written_codon_start": back.qualifiers.get("codon_start")}

    def post(self, var, v, out):
        if is_raised(out):
            return [("no_raise", False)]
        gene = biological(model_parts("g", var["shape"], v), var["strand"])
        skip = var["codon_start"] - 1
        adj = [(p[0], p[1]) for p in out["adjusted"]]
        wr = [(p[0], p[1]) for p in out["written"]]
        t = v["t"]
        total = parts_len(gene)
        return [("reading_frame_starts_codon_start_bases_in", L.And(parts_len(adj) == total - skip,
                                                                      L.Implies(t < total - skip, coding_pos(adj, var["strand"], t) == coding_pos(gene, var["strand"], t + skip)))),
                ("written_location_is_the_original", L.And(len(wr) == len(gene), [L.And(a[0] == b[0], a[1] == b[1]) for a, b in zip(wr, gene)])),
                ("codon_start_qualifier_kept", out["written_codon_start"] == [str(var["codon_start"])])]



class PrepeptideParts(Harness):
    """leader / core / tail of a precursor peptide as written by Prepeptide.to_biopython: the three locations split the gene's
    coding bases in reading order, three bases per residue"""
    pid, name = "C09", "prepeptide_parts"
    functions = ["antismash.common.secmet.features.prepeptide:Prepeptide.to_biopython",
                 FT + "Feature.get_sub_location_from_protein_coordinates",
                 "antismash.common.secmet.locations:convert_protein_position_to_dna"]
    bound = ("a precursor gene with 1, 2 or 3 exons or origin-spanning (two or three exons), either strand, symbolic exon boundaries (whole codons in total); "
             "leader of 0-2, core of 1-2 and tail of 0-1 residues plus free residues in the core so that the lengths fit: the core "
             "length in residues is symbolic (gene length / 3 - leader - tail)")
    outside = "more than 3 exons; leader / tail longer than two residues (their lengths only enter as constants)"
    task_paths = 200

    def variants(self, tier):
        out = []
        for shape in ("s", "j2", "o", "j3", "o3"):
            for strand in (1, -1):
                for leader, tail in (("", ""), ("M", ""), ("MA", "C"), ("", "C")):
                    if tier == "quick" and (leader, tail) in (("M", ""), ("", "C")) and shape != "j2":
                        continue
                    if tier == "quick" and shape in ("j3", "o3") and (leader, tail) != ("MA", "C"):
                        continue
                    out.append({"shape": shape, "strand": strand, "leader": leader, "tail": tail})
        return out

    def vars(self, var):
        d = {"n": "int", "t": "int", "k": "int"}
        d.update(shape_vars("g", var["shape"]))
        return d

    def pre(self, var, v):
        parts = model_parts("g", var["shape"], v)
        c = [shape_pre("g", var["shape"], v, v["n"]), parts_len([(s, e) for s, e in parts]) == 3 * v["k"],
             v["k"] >= len(var["leader"]) + len(var["tail"]) + 1, 0 <= v["t"]]
        if var["shape"] == "j2":
            c.append(v["ge0"] < v["gs1"])
        if var["shape"] == "j3":
            c += [v["ge0"] < v["gs1"], v["ge1"] < v["gs2"]]
        return L.And(c)

    def run(self, var, v):
        from antismash.common.secmet.features import Prepeptide
        pre = Prepeptide(build("g", var["shape"], v, var["strand"]), "lanthipeptide", "AG", "gene", "lanthipeptides", "Class-II",
                         15.5, 3000.25, 3010.75, leader=var["leader"], tail=var["tail"])
        out = {}
        for feature in pre.to_biopython():
            section = feature.qualifiers["prepeptide"][0]
            out[section] = {"parts": canon_loc(feature.location), "strand": feature.location.strand}
        return out

    def post(self, var, v, out):
        if is_raised(out):
            return [("no_raise", False)]
        n, t, k = v["n"], v["t"], v["k"]
        gene = biological(model_parts("g", var["shape"], v), var["strand"])
        nl, nt = len(var["leader"]), len(var["tail"])
        want_sections = ["core"] + (["leader"] if nl else []) + (["tail"] if nt else [])
        cl = [("sections_present", sorted(out) == sorted(want_sections))]
        if sorted(out) != sorted(want_sections):
            return cl
        ranges = {"leader": (0, nl), "core": (nl, k - nt), "tail": (k - nt, k)}
        for section, data in out.items():
            first, last = ranges[section]
            res = [(p[0], p[1]) for p in data["parts"]]
            length = 3 * (last - first)
            cl += [("well_formed_inside_record", wf_parts(data["parts"], n)),
                   ("three_bases_per_residue", parts_len(data["parts"]) == length),
                   ("same_strand", data["strand"] == var["strand"]),
                   ("covers_the_encoding_bases_in_reading_order",
                    L.Implies(t < length, coding_pos(res, var["strand"], t) == coding_pos(gene, var["strand"], 3 * first + t)))]
        return cl


HARNESSES = [SubLocation(), TTAMarker(), CodonStart(), PrepeptideParts()]
