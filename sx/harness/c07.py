"""C07 - detection is invariant under origin rotation and rule order."""
import itertools
from collections import defaultdict

from antismash.common.hmm_rule_parser import cluster_prediction as cp
from antismash.common.hmm_rule_parser import rule_parser as rp
from antismash.common.hmm_rule_parser.structures import ProfileHit
from antismash.common.secmet.test.helpers import DummyCDS

from .. import logic as L
from . import c01  # noqa: F401  (installs the Details.in_range summary)
from .c04 import build, model_parts, ring_distance_spec, shape_pre, shape_vars
from .common import Harness, canon_loc, cn, contains_parts, in_parts, is_raised, mkrecord, overlap_parts, parts_len

CP = "antismash.common.hmm_rule_parser.cluster_prediction:"


def pair_rule(name, cutoff):
    cond = rp.AndCondition([rp.SingleCondition(False, "a"), rp.TokenTypes.AND, rp.SingleCondition(False, "b")])
    return rp.DetectionRule(name, "cat", cutoff, 0, rp.Conditions(False, [cond]))


class RuleOrder(Harness):
    pid, name = "C07", "rule_order"
    functions = [CP + "apply_cluster_rules", CP + "_extend_area_location",
                 "antismash.common.hmm_rule_parser.rule_parser:DetectionRule.detect",
                 "antismash.common.secmet.record:Record.get_cds_features_within_location"]
    bound = ("rulesets of two or three rules 'a and b' whose cutoffs follow every pattern over two cutoffs A, B "
             "(AB, BA, AAB, ABA, BAA, ABB, BAB, BBA), compared with each rule evaluated alone; two genes (one carrying a, one b) with "
             "symbolic coordinates; record length / cutoffs from three concrete settings (100000/20000/2000, 30000/20000/2000, 5000/20000/2000: "
             "record larger than, comparable to and smaller than the cutoffs), quick: patterns AB, ABA, BAB; thorough: all patterns plus ABA with fully symbolic sizes")
    outside = "more than three rules / two genes / two distinct cutoffs; other condition shapes (their evaluation is C01)"
    task_paths = 100

    def variants(self, tier):
        pats = ["AB", "BA", "AAB", "ABA", "BAA", "ABB", "BAB", "BBA"]
        sizes = [(100000, 20000, 2000), (30000, 20000, 2000), (5000, 20000, 2000)]
        out = []
        for n, a, b in sizes:
            out += [{"circ": True, "pattern": p, "n": n, "A": a, "B": b} for p in (pats if tier == "thorough" else ["AB", "ABA", "BAB"])]
            if tier == "thorough" or n == 100000:
                out += [{"circ": False, "pattern": p, "n": n, "A": a, "B": b} for p in (pats if tier == "thorough" else ["ABA"])]
        if tier == "thorough":
            # fully symbolic record length and cutoffs for the pattern that separates cached from fresh evaluation
            out.append({"circ": True, "pattern": "ABA", "n": None, "A": None, "B": None})
        return out

    def size(self, var, v, key):
        return var[key] if var[key] is not None else v[{"n": "n", "A": "cA", "B": "cB"}[key]]

    def vars(self, var):
        d = {}
        if var["n"] is None:
            d.update({"n": "int", "cA": "int", "cB": "int"})
        d.update(shape_vars("g0", "s"))
        d.update(shape_vars("g1", "s"))
        return d

    def pre(self, var, v):
        n = self.size(var, v, "n")
        c = [shape_pre("g0", "s", v, n), shape_pre("g1", "s", v, n), v["g0s0"] <= v["g1s0"],
             L.Or(v["g0s0"] != v["g1s0"], v["g0e0"] != v["g1e0"])]
        if var["n"] is None:
            c += [L.And(v[k] >= 1, v[k] <= 3 * n) for k in ("cA", "cB")]
        return L.And(c)

    def run(self, var, v):
        rec = mkrecord(self.size(var, v, "n"), var["circ"])
        for i in range(2):
            rec.add_cds_feature(DummyCDS(location=build("g%d" % i, "s", v), locus_tag="g%d" % i, translation="A"))
        hits = {"g0": [ProfileHit("g0", "a", 50., 1e-5)], "g1": [ProfileHit("g1", "b", 50., 1e-5)]}
        names = ["r%d%s" % (i, c) for i, c in enumerate(var["pattern"])]
        rules = [pair_rule(nm, self.size(var, v, nm[-1])) for nm in names]
        _doms, by_rule = cp.apply_cluster_rules(rec, hits, rules)
        together = {nm: sorted(by_rule.get(nm, set())) for nm in names}
        alone = {}
        for c in "AB":
            _d, res = cp.apply_cluster_rules(rec, hits, [pair_rule("solo" + c, self.size(var, v, c))])
            alone[c] = sorted(res.get("solo" + c, set()))
        return {"together": together, "alone": alone}

    def post(self, var, v, out):
        if is_raised(out):
            return [("no_raise", False)]
        n = self.size(var, v, "n")
        g0, g1 = model_parts("g0", "s", v), model_parts("g1", "s", v)
        dist = ring_distance_spec(g0, g1, n if var["circ"] else None)
        cl = []
        for rule, anchors in out["together"].items():
            c = rule[-1]
            cl.append(("rule_result_independent_of_other_rules_and_order", anchors == out["alone"][c]))
            cl.append(("rule_fires_iff_partner_within_cutoff", L.Iff(anchors == ["g0", "g1"], dist < self.size(var, v, c))))
            cl.append(("nothing_else_reported", anchors in ([], ["g0", "g1"])))
        return cl


HARNESSES = [RuleOrder()]


def rotate_case(s, e, k, n, case):
    """coordinates of gene [s,e) after moving the origin to old position k; case: 'before' (k <= s), 'after' (k >= e),
    'cut' (s < k < e). Returns (constraint, parts-in-biological-order)"""
    if case == "before":
        return k <= s, [(s - k, e - k)]
    if case == "after":
        return k >= e, [(s - k + n, e - k + n)]
    return L.And(s < k, k < e), [(s - k + n, n), (0, e - k)]


class Rotation(Harness):
    pid, name = "C07", "rotation"
    functions = [CP + "find_protoclusters", CP + "merge_over_origin", CP + "_extend_area_location",
                 "antismash.common.secmet.record:Record.connect_locations", "antismash.common.secmet.record:Record.extend_location"]
    bound = ("circular record, G = 2 anchoring genes of one rule, origin moved to any position k in [0, n) (before, after or cutting "
             "through either gene: the cut gene becomes a two-part origin-spanning gene, built by the specification of rotation), "
             "symbolic coordinates, cutoff and record length, neighbourhood 0; both records go through find_protoclusters in one path")
    outside = "G > 2; candidate cluster / region stages (covered per stage by C05/C06 on origin-spanning inputs); neighbourhood > 0"
    task_paths = 100

    def variants(self, tier):
        out = []
        for c0 in ("before", "after", "cut"):
            for c1 in ("before", "after", "cut"):
                if (c0, c1) not in (("before", "before"), ("after", "before"), ("after", "after"), ("cut", "before"), ("after", "cut")):
                    continue   # the others contradict g0 lying before g1
                out.append({"cases": [c0, c1]})
        # (tried: G = 3 with the new origin in a gap between genes does not finish within 50 minutes on 16 cores - the path count of
        # two find_protoclusters runs over three symbolic genes; the code below is general in G, the variants are not registered)
        return out

    def vars(self, var):
        d = {"n": "int", "k": "int", "cutoff": "int"}
        for i in range(len(var["cases"])):
            d.update(shape_vars("g%d" % i, "s"))
        return d

    def rotated(self, var, v):
        cons, parts = [], []
        for i in range(len(var["cases"])):
            c, p = rotate_case(v["g%ds0" % i], v["g%de0" % i], v["k"], v["n"], var["cases"][i])
            cons.append(c)
            parts.append(p)
        return L.And(cons), parts

    def pre(self, var, v):
        n = v["n"]
        cons, _ = self.rotated(var, v)
        g = len(var["cases"])
        return L.And([shape_pre("g%d" % i, "s", v, n) for i in range(g)], [v["g%de0" % i] <= v["g%ds0" % (i + 1)] for i in range(g - 1)],
                     0 <= v["k"], v["k"] < n, v["cutoff"] >= 1, v["cutoff"] <= 3 * n, cons)

    def detect(self, n, gene_parts, cutoff):
        from .c03 import mkrule
        from .common import mkloc
        rec = mkrecord(n, True)
        for i, parts in enumerate(gene_parts):
            rec.add_cds_feature(DummyCDS(location=mkloc(parts), locus_tag="g%d" % i, translation="A"))
        doms = defaultdict(lambda: defaultdict(set))
        protos = cp.find_protoclusters(rec, {"r1": {"g%d" % i for i in range(len(gene_parts))}}, {"r1": mkrule("r1", cutoff, 0)}, {}, doms)
        return [canon_loc(p.core_location) for p in protos]

    def run(self, var, v):
        _, rot = self.rotated(var, v)
        orig = [[(v["g%ds0" % i], v["g%de0" % i])] for i in range(len(var["cases"]))]
        return {"original": self.detect(v["n"], orig, v["cutoff"]), "rotated": self.detect(v["n"], rot, v["cutoff"])}

    def post(self, var, v, out):
        if is_raised(out):
            return [("no_raise", False)]
        n = v["n"]
        _, rot = self.rotated(var, v)
        g = len(var["cases"])
        orig = [[(v["g%ds0" % i], v["g%de0" % i])] for i in range(g)]

        def together(cores, genes):
            return [L.Or([L.And(contains_parts(c, genes[a]), contains_parts(c, genes[b])) for c in cores])
                    for a in range(g) for b in range(a + 1, g)]

        def small(cores):
            return L.And([2 * parts_len(c) < n for c in cores])
        guard = L.And(small(out["original"]), small(out["rotated"]))
        return [("same_protoclusters_same_member_genes_after_rotation",
                 L.Implies(guard, L.And([L.Iff(p, q) for p, q in zip(together(out["original"], orig), together(out["rotated"], rot))],
                                        len(out["original"]) == len(out["rotated"]))))]


class SuperiorsOrder(Harness):
    """protoclusters must not depend on the order the rules are listed in, beyond the documented removal of inferior rules:
    a three-level SUPERIORS chain (low < mid < top) on two genes, the rules supplied in every order"""
    pid, name = "C07", "superiors_order"
    functions = [CP + "find_protoclusters", CP + "remove_redundant_protoclusters", CP + "merge_over_origin"]
    bound = ("three rules in a chain of SUPERIORS (closed: the lowest names both others), two disjoint simple genes, one anchoring "
             "the highest and the middle rule, the other the middle and the lowest (both assignments); symbolic coordinates, one "
             "symbolic cutoff per rule, neighbourhood 0; linear (quick) and circular (thorough); all six orders of the rules")
    outside = "more rules / genes; extenders (C03)"
    task_paths = 150

    def variants(self, tier):
        return [{"circ": circ, "swap": swap} for circ in ((False,) if tier == "quick" else (False, True)) for swap in (False, True)]

    def vars(self, var):
        d = {"n": "int", "cl": "int", "cm": "int", "ct": "int"}
        d.update(shape_vars("g0", "s"))
        d.update(shape_vars("g1", "s"))
        return d

    def pre(self, var, v):
        n = v["n"]
        return L.And(shape_pre("g0", "s", v, n), shape_pre("g1", "s", v, n), v["g0e0"] <= v["g1s0"],
                     [L.And(v[k] >= 1, v[k] <= 3 * n) for k in ("cl", "cm", "ct")])

    def run(self, var, v):
        first, second = ("g1", "g0") if var["swap"] else ("g0", "g1")
        outs = []
        for order in itertools.permutations(["low", "mid", "top"]):
            rec = mkrecord(v["n"], var["circ"])
            for i in range(2):
                rec.add_cds_feature(DummyCDS(location=build("g%d" % i, "s", v), locus_tag="g%d" % i, translation="A"))
            rules = {"low": rp.DetectionRule("low", "cat", v["cl"], 0, rp.SingleCondition(False, "a")),
                     "mid": rp.DetectionRule("mid", "cat", v["cm"], 0, rp.SingleCondition(False, "b"), superiors=["low"]),
                     "top": rp.DetectionRule("top", "cat", v["ct"], 0, rp.SingleCondition(False, "c"), superiors=["low", "mid"])}
            anchors = {"low": {first}, "mid": {first, second}, "top": {second}}
            by_type = {name: anchors[name] for name in order}
            by_name = {name: rules[name] for name in order}
            protos = cp.find_protoclusters(rec, by_type, by_name, {}, defaultdict(lambda: defaultdict(set)))
            outs.append(sorted((p.product, tuple(canon_loc(p.core_location))) for p in protos))
        return outs

    def post(self, var, v, out):
        if is_raised(out):
            return [("no_raise", False)]
        base = out[0]
        same = []
        for other in out[1:]:
            if [p for p, _ in other] != [p for p, _ in base] or any(len(a[1]) != len(b[1]) for a, b in zip(base, other)):
                same.append(False)
                continue
            same.append(L.And([L.And(x[0] == y[0], x[1] == y[1]) for a, b in zip(base, other) for x, y in zip(a[1], b[1])]))
        return [("same_protoclusters_for_every_rule_order", L.And(same))]


HARNESSES = [RuleOrder(), Rotation(), SuperiorsOrder()]
