"""C12 - per-region GenBank files are faithful, self-consistent extracts (object level, before the text layer)."""
from Bio.Seq import Seq
from Bio.SeqRecord import SeqRecord

from antismash.common.secmet.features import CandidateCluster, SubRegion
from antismash.common.secmet.features.candidate_cluster import CandidateClusterKind
from antismash.common.secmet.features.protocluster import Protocluster
from antismash.common.secmet.features.region import helpers as rh
from antismash.common.secmet.locations import location_from_string
from antismash.common.secmet.test.helpers import DummyCDS

from .. import logic as L
from .c04 import build, model_parts, shape_pre, shape_vars
from .common import Harness, canon_loc, cn, contains_parts, in_parts, is_raised, mkrecord, parts_len, wf_parts

RH = "antismash.common.secmet.features.region.helpers:"


class FakeSeqRecord(SeqRecord):
    """SeqRecord whose slicing / concatenation follow Biopython's documented behaviour on the feature table only:
    a slice keeps the features lying fully inside it, shifted by -start; a + b appends b's features shifted by len(a)"""
    def __init__(self, n, features, annotations=None):
        SeqRecord.__init__(self, Seq(""), id="rec", name="rec")
        self._n = n
        self.features = list(features)
        self.annotations = dict(annotations or {})

    def __len__(self):
        return self._n

    def __bool__(self):
        return True

    def __getitem__(self, index):
        assert isinstance(index, slice) and index.step is None
        start = 0 if index.start is None else index.start
        stop = self._n if index.stop is None else index.stop
        kept = []
        for f in self.features:
            if start <= f.location.start and f.location.end <= stop:
                kept.append(f._shift(-start))
        return FakeSeqRecord(stop - start, kept, self.annotations)

    def __add__(self, other):
        length = self._n
        return FakeSeqRecord(length + other._n, self.features[:] + [f._shift(length) for f in other.features], self.annotations)


def num(text):
    """the integer a qualifier text stands for (symbolic numbers are rendered as identity-preserving tokens)"""
    if "§" in text:
        from ..core import _int_from_text
        return _int_from_text(text)
    return int(text)


class RegionExtract(Harness):
    pid, name = "C12", "region_extract"
    functions = [RH + "write_to_genbank", RH + "_build_base_record", RH + "_build_record_from_cross_origin", RH + "_adjust_features",
                 RH + "_adjust_protocluster", RH + "_build_annotations",
                 "antismash.common.secmet.locations:offset_location", "antismash.common.secmet.record:Record.to_biopython"]
    bound = ("one region made of one protocluster (core inside extent) in a single candidate cluster, optionally a subregion, one gene "
             "inside the core; region simple or origin-spanning; symbolic coordinates and record length; the record-wide numbers of the "
             "protocluster / candidate cluster / subregion are symbolic (any region of any record)")
    outside = "GenBank text (seqio.write is captured, SeqRecord slicing is modelled on the feature table); several candidates per region; CDS motifs"
    stubs = ["rendered integers are opaque per-expression tokens without equality forks (no text comparison of numbers in this code path)",
             "SeqRecord slicing/concatenation modelled on the feature table (FakeSeqRecord), seqio.write captured instead of writing text"]

    def variants(self, tier):
        out = [{"shape": sh, "sub": sub, "gene": "s", "gstrand": 1, "motif": False} for sh in ("s", "o") for sub in (False, True)]
        # an origin-spanning gene (either strand) inside an origin-spanning region; a prepeptide-style motif with leader location
        out += [{"shape": "o", "sub": False, "gene": "o", "gstrand": st, "motif": False} for st in (1, -1)]
        out += [{"shape": sh, "sub": False, "gene": "s", "gstrand": 1, "motif": True} for sh in ("s", "o")]
        return out

    def vars(self, var):
        d = {"n": "int", "x": "int", "kp": "int", "kc": "int", "ks": "int"}
        d.update(shape_vars("e", var["shape"]))
        d.update(shape_vars("c", "s"))
        d.update(shape_vars("g", var["gene"]))
        if var["motif"]:
            d.update(shape_vars("m", "s"))
        if var["sub"]:
            d.update(shape_vars("r", "s"))
        return d

    def pre(self, var, v):
        n = v["n"]
        ext = model_parts("e", var["shape"], v)
        c = [shape_pre("e", var["shape"], v, n), shape_pre("c", "s", v, n), shape_pre("g", var["gene"], v, n),
             contains_parts(ext, model_parts("c", "s", v)), contains_parts(ext, model_parts("g", var["gene"], v)),
             0 <= v["x"], v["x"] < n, 0 <= v["kp"], 0 <= v["kc"], 0 <= v["ks"]]
        if var["sub"]:
            c += [shape_pre("r", "s", v, n), contains_parts(ext, model_parts("r", "s", v))]
        if var["motif"]:
            c += [shape_pre("m", "s", v, n), contains_parts(model_parts("g", "s", v), model_parts("m", "s", v))]
        return L.And(c)

    def run(self, var, v):
        if L.issym(v["n"]):
            # no rendered number is ever compared as text here (one gene, qualifiers only parsed back), so the
            # identity-preserving forks of the token model are not needed
            from ..core import ENG
            ENG.lazy_tokens = True
        n = v["n"]
        circ = var["shape"] == "o"
        rec = mkrecord(n, circ)
        rec.id = "rec"
        gene = DummyCDS(location=build("g", var["gene"], v, var["gstrand"]), locus_tag="gene", translation="A")
        rec.add_cds_feature(gene)
        core, ext = build("c", "s", v), build("e", var["shape"], v)
        proto = Protocluster(core, ext, tool="test", product="prod", cutoff=1, neighbourhood_range=0, detection_rule="r")
        rec.add_protocluster(proto)
        cand = CandidateCluster(CandidateClusterKind.SINGLE, [proto], circular_wrap_point=n if circ else None)
        rec.add_candidate_cluster(cand)
        if var["sub"]:
            rec.add_subregion(SubRegion(build("r", "s", v), tool="test"))
        rec.create_regions()
        region = rec.get_regions()[0]
        # this region may be any region of any record: its areas carry arbitrary record-wide numbers
        rec._protocluster_numbering[proto] = 1 + v["kp"]
        rec._candidate_clusters_numbering[cand] = 1 + v["kc"]
        for sub in rec.get_subregions():
            rec._subregion_numbering[sub] = 1 + v["ks"]
        bio = rec.to_biopython()
        if var["motif"]:
            from Bio.SeqFeature import SeqFeature
            mloc = build("m", "s", v)
            bio.features.append(SeqFeature(build("g", "s", v), type="CDS_motif",
                                           qualifiers={"leader_location": [str(mloc)], "locus_tag": ["gene"], "prepeptide": ["core"]}))

        def quals(features):
            return [sorted((k, list(val) if isinstance(val, list) else val) for k, val in f.qualifiers.items()) for f in features]
        before = [canon_loc(f.location) for f in bio.features]
        quals_before = quals(bio.features)
        fake = FakeSeqRecord(n, bio.features, {"topology": "circular" if circ else "linear"})
        captured = []

        def snapshot(records, handle, fmt):
            # what would be written, taken at the moment seqio.write is called (locations are restored afterwards)
            out_rec = records[0]
            feats = []
            for f in out_rec.features:
                q = f.qualifiers
                feats.append({"type": f.type, "loc": canon_loc(f.location),
                              "protocluster_number": cn(num(q["protocluster_number"][0])) if "protocluster_number" in q else None,
                              "candidate_cluster_number": cn(num(q["candidate_cluster_number"][0])) if "candidate_cluster_number" in q else None,
                              "protoclusters": [cn(num(t)) for t in q.get("protoclusters", [])] if f.type == "cand_cluster" else None,
                              "candidate_cluster_numbers": [cn(num(t)) for t in q.get("candidate_cluster_numbers", [])] if f.type == "region" else None,
                              "subregion_numbers": [cn(num(t)) for t in q.get("subregion_numbers", [])] if f.type == "region" else None,
                              "subregion_number": cn(num(q["subregion_number"][0])) if "subregion_number" in q else None,
                              "leader_location": canon_loc(location_from_string(q["leader_location"][0])) if "leader_location" in q else None,
                              "core_location": canon_loc(location_from_string(q["core_location"][0])) if "core_location" in q else None})
            captured.append({"len": cn(out_rec._n), "features": feats,
                             "orig_start": out_rec.annotations["structured_comment"]["antiSMASH-Data"]["Orig. start"] is not None})
        orig_write = rh.seqio.write
        rh.seqio.write = snapshot
        try:
            data = rh.RegionData(start=region.start, end=region.end, candidate_clusters=region.candidate_clusters,
                                 subregions=region.subregions)
            rh.write_to_genbank(data, fake, None)
        finally:
            rh.seqio.write = orig_write
        after = [canon_loc(f.location) for f in bio.features]
        res = captured[0]
        res.update({"before": before, "after": after, "qualifiers_unchanged": quals_before == quals(bio.features)})
        return res

    def post(self, var, v, out):
        if is_raised(out):
            return [("no_raise", False)]
        n, x = v["n"], v["x"]
        ext = model_parts("e", var["shape"], v)
        start = ext[0][0]
        rlen = parts_len(ext)

        def shifted(pos):
            return (pos - start + n) % n
        cl = [("extract_has_the_region_length", out["len"] == rlen)]
        orig = {"CDS": model_parts("g", var["gene"], v), "protocluster": ext, "proto_core": model_parts("c", "s", v),
                "cand_cluster": ext, "region": ext}
        if var["sub"]:
            orig["subregion"] = model_parts("r", "s", v)
        seen = [f["type"] for f in out["features"]]
        for t in orig:
            cl.append(("every_feature_of_the_region_is_present", t in seen))
        for f in out["features"]:
            if f["type"] in orig:
                cl.append(("feature_shifted_covers_same_bases", L.And(wf_parts(f["loc"], rlen),
                           L.Iff(in_parts(x, orig[f["type"]]), in_parts(shifted(x), f["loc"])))))
            if f["protocluster_number"] is not None:
                cl.append(("protocluster_renumbered_from_one", f["protocluster_number"] == 1))
            if f["candidate_cluster_number"] is not None:
                cl.append(("candidate_renumbered_from_one", f["candidate_cluster_number"] == 1))
            if f["protoclusters"] is not None:
                cl.append(("candidate_refers_to_renumbered_protoclusters", L.And(len(f["protoclusters"]) == 1, [p == 1 for p in f["protoclusters"]])))
            if f["candidate_cluster_numbers"] is not None:
                cl.append(("region_refers_to_renumbered_candidates", L.And(len(f["candidate_cluster_numbers"]) == 1,
                                                                       [c == 1 for c in f["candidate_cluster_numbers"]])))
            if f["subregion_numbers"] is not None:
                cl.append(("region_refers_to_renumbered_subregions", L.And(len(f["subregion_numbers"]) == (1 if var["sub"] else 0),
                                                                       [s == 1 for s in f["subregion_numbers"]])))
            if f["subregion_number"] is not None:
                cl.append(("subregion_renumbered_from_one", f["subregion_number"] == 1))
            if f.get("leader_location") is not None:
                cl.append(("leader_location_shifted_with_the_region",
                           L.Iff(in_parts(x, model_parts("m", "s", v)), in_parts(shifted(x), f["leader_location"]))))
            if f["core_location"] is not None:
                cl.append(("core_location_shifted_with_the_region",
                           L.Iff(in_parts(x, model_parts("c", "s", v)), in_parts(shifted(x), f["core_location"]))))
        same = L.And([L.And(len(a) == len(b), [L.And(p[0] == q[0], p[1] == q[1]) for p, q in zip(a, b)])
                      for a, b in zip(out["before"], out["after"])])
        cl.append(("full_record_left_unchanged", L.And(len(out["before"]) == len(out["after"]), same, out["qualifiers_unchanged"])))
        if var["motif"]:
            cl.append(("motif_present", "CDS_motif" in seen))
        return cl


HARNESSES = [RegionExtract()]
