"""C12 - per-region GenBank files are faithful, self-consistent extracts (object level, before the text layer)."""
from Bio.Seq import Seq
from Bio.SeqRecord import SeqRecord

from antismash.common.secmet.features import CandidateCluster, SubRegion
from antismash.common.secmet.features.candidate_cluster import CandidateClusterKind
from antismash.common.secmet.features.protocluster import Protocluster
from antismash.common.secmet.features.region import helpers as rh
from antismash.common.secmet.locations import location_from_string
from antismash.common.secmet.test.helpers import DummyCDS

from .. import logic as L
from .c04 import build, model_parts, shape_pre, shape_vars
from .common import Harness, canon_loc, cn, contains_parts, in_parts, is_raised, mkrecord, parts_len, wf_parts

RH = "antismash.common.secmet.features.region.helpers:"


class FakeSeqRecord(SeqRecord):
    """SeqRecord whose slicing / concatenation follow Biopython's documented behaviour on the feature table only:
    a slice keeps the features lying fully inside it, shifted by -start; a + b appends b's features shifted by len(a)"""
    def __init__(self, n, features, annotations=None):
        SeqRecord.__init__(self, Seq(""), id="rec", name="rec")
        self._n = n
        self.features = list(features)
        self.annotations = dict(annotations or {})

    def __len__(self):
        return self._n

    def __bool__(self):
        return True

    def __getitem__(self, index):
        assert isinstance(index, slice) and index.step is None
        start = 0 if index.start is None else index.start
        stop = self._n if index.stop is None else index.stop
        kept = []
        for f in self.features:
            if start <= f.location.start and f.location.end <= stop:
                kept.append(f._shift(-start))
        return FakeSeqRecord(stop - start, kept, self.annotations)

    def __add__(self, other):
        length = self._n
        return FakeSeqRecord(length + other._n, self.features[:] + [f._shift(length) for f in other.features], self.annotations)


def num(text):
    """the integer a qualifier text stands for (symbolic numbers are rendered as identity-preserving tokens)"""
    if "§" in text:
        from ..core import _int_from_text
        return _int_from_text(text)
    return int(text)


class RegionExtract(Harness):
    pid, name = "C12", "region_extract"
    functions = [RH + "write_to_genbank", RH + "_build_base_record", RH + "_build_record_from_cross_origin", RH + "_adjust_features",
                 RH + "_adjust_protocluster", RH + "_build_annotations",
                 "antismash.common.secmet.locations:offset_location", "antismash.common.secmet.record:Record.to_biopython"]
    bound = ("one region made of one protocluster (core inside extent) in a single candidate cluster, optionally a subregion, or of a "
             "subregion alone, one gene "
             "inside the core; region simple or origin-spanning; symbolic coordinates and record length; the record-wide numbers of the "
             "protocluster / candidate cluster / subregion are symbolic (any region of any record)")
    outside = "GenBank text (seqio.write is captured, SeqRecord slicing is modelled on the feature table); several candidates per region; CDS motifs"
    stubs = ["rendered integers are opaque per-expression tokens without equality forks (no text comparison of numbers in this code path)",
             "SeqRecord slicing/concatenation modelled on the feature table (FakeSeqRecord), seqio.write captured instead of writing text"]

    def variants(self, tier):
        out = [{"shape": sh, "sub": sub, "gene": "s", "gstrand": 1, "motif": False} for sh in ("s", "o") for sub in (False, True)]
        # an origin-spanning gene (either strand) inside an origin-spanning region; a prepeptide-style motif with leader location
        out += [{"shape": "o", "sub": False, "gene": "o", "gstrand": st, "motif": False} for st in (1, -1)]
        out += [{"shape": sh, "sub": False, "gene": "s", "gstrand": 1, "motif": True} for sh in ("s", "o")]
        # a region made of a subregion alone (no candidate cluster, no protocluster), with any record-wide number
        out += [{"shape": sh, "sub": False, "subonly": True, "gene": "s", "gstrand": 1, "motif": False} for sh in ("s", "o")]
        return out

    def vars(self, var):
        d = {"n": "int", "x": "int", "kp": "int", "kc": "int", "ks": "int"}
        d.update(shape_vars("e", var["shape"]))
        d.update(shape_vars("c", "s"))
        d.update(shape_vars("g", var["gene"]))
        if var["motif"]:
            d.update(shape_vars("m", "s"))
        if var["sub"]:
            d.update(shape_vars("r", "s"))
        return d

    def pre(self, var, v):
        n = v["n"]
        ext = model_parts("e", var["shape"], v)
        c = [shape_pre("e", var["shape"], v, n), shape_pre("c", "s", v, n), shape_pre("g", var["gene"], v, n),
             contains_parts(ext, model_parts("c", "s", v)), contains_parts(ext, model_parts("g", var["gene"], v)),
             0 <= v["x"], v["x"] < n, 0 <= v["kp"], 0 <= v["kc"], 0 <= v["ks"]]
        if var["sub"]:
            c += [shape_pre("r", "s", v, n), contains_parts(ext, model_parts("r", "s", v))]
        if var["motif"]:
            c += [shape_pre("m", "s", v, n), contains_parts(model_parts("g", "s", v), model_parts("m", "s", v))]
        return L.And(c)

    def run(self, var, v):
        if L.issym(v["n"]):
            # no rendered number is ever compared as text here (one gene, qualifiers only parsed back), so the
            # identity-preserving forks of the token model are not needed
            from ..core import ENG
            ENG.lazy_tokens = True
        n = v["n"]
        circ = var["shape"] == "o"
        rec = mkrecord(n, circ)
        rec.id = "rec"
        gene = DummyCDS(location=build("g", var["gene"], v, var["gstrand"]), locus_tag="gene", translation="A")
        rec.add_cds_feature(gene)
        core, ext = build("c", "s", v), build("e", var["shape"], v)
        proto = cand = None
        if var.get("subonly"):
            rec.add_subregion(SubRegion(ext, tool="test"))
        else:
            proto = Protocluster(core, ext, tool="test", product="prod", cutoff=1, neighbourhood_range=0, detection_rule="r")
            rec.add_protocluster(proto)
            cand = CandidateCluster(CandidateClusterKind.SINGLE, [proto], circular_wrap_point=n if circ else None)
            rec.add_candidate_cluster(cand)
        if var["sub"]:
            rec.add_subregion(SubRegion(build("r", "s", v), tool="test"))
        rec.create_regions()
        region = rec.get_regions()[0]
        # this region may be any region of any record: its areas carry arbitrary record-wide numbers
        if proto is not None:
            rec._protocluster_numbering[proto] = 1 + v["kp"]
            rec._candidate_clusters_numbering[cand] = 1 + v["kc"]
        for sub in rec.get_subregions():
            rec._subregion_numbering[sub] = 1 + v["ks"]
        bio = rec.to_biopython()
        if var["motif"]:
            from Bio.SeqFeature import SeqFeature
            mloc = build("m", "s", v)
            bio.features.append(SeqFeature(build("g", "s", v), type="CDS_motif",
                                           qualifiers={"leader_location": [str(mloc)], "locus_tag": ["gene"], "prepeptide": ["core"]}))

        def quals(features):
            return [sorted((k, list(val) if isinstance(val, list) else val) for k, val in f.qualifiers.items()) for f in features]
        before = [canon_loc(f.location) for f in bio.features]
        quals_before = quals(bio.features)
        fake = FakeSeqRecord(n, bio.features, {"topology": "circular" if circ else "linear"})
        captured = []

        def snapshot(records, handle, fmt):
            # what would be written, taken at the moment seqio.write is called (locations are restored afterwards)
            out_rec = records[0]
            feats = []
            for f in out_rec.features:
                q = f.qualifiers
                feats.append({"type": f.type, "loc": canon_loc(f.location),
                              "protocluster_number": cn(num(q["protocluster_number"][0])) if "protocluster_number" in q else None,
                              "candidate_cluster_number": cn(num(q["candidate_cluster_number"][0])) if "candidate_cluster_number" in q else None,
                              "protoclusters": [cn(num(t)) for t in q.get("protoclusters", [])] if f.type == "cand_cluster" else None,
                              "candidate_cluster_numbers": [cn(num(t)) for t in q.get("candidate_cluster_numbers", [])] if f.type == "region" else None,
                              "subregion_numbers": [cn(num(t)) for t in q.get("subregion_numbers", [])] if f.type == "region" else None,
                              "subregion_number": cn(num(q["subregion_number"][0])) if "subregion_number" in q else None,
                              "leader_location": canon_loc(location_from_string(q["leader_location"][0])) if "leader_location" in q else None,
                              "core_location": canon_loc(location_from_string(q["core_location"][0])) if "core_location" in q else None})
            captured.append({"len": cn(out_rec._n), "features": feats,
                             "orig_start": out_rec.annotations["structured_comment"]["antiSMASH-Data"]["Orig. start"] is not None})
        orig_write = rh.seqio.write
        rh.seqio.write = snapshot
        try:
            data = rh.RegionData(start=region.start, end=region.end, candidate_clusters=region.candidate_clusters,
                                 subregions=region.subregions)
            rh.write_to_genbank(data, fake, None)
        finally:
            rh.seqio.write = orig_write
        after = [canon_loc(f.location) for f in bio.features]
        res = captured[0]
        res.update({"before": before, "after": after, "qualifiers_unchanged": quals_before == quals(bio.features)})
        return res

    def post(self, var, v, out):
        if is_raised(out):
            return [("no_raise", False)]
        n, x = v["n"], v["x"]
        ext = model_parts("e", var["shape"], v)
        start = ext[0][0]
        rlen = parts_len(ext)

        def shifted(pos):
            return (pos - start + n) % n
        cl = [("extract_has_the_region_length", out["len"] == rlen)]
        orig = {"CDS": model_parts("g", var["gene"], v), "protocluster": ext, "proto_core": model_parts("c", "s", v),
                "cand_cluster": ext, "region": ext}
        subonly = bool(var.get("subonly"))
        if subonly:
            orig = {"CDS": orig["CDS"], "subregion": ext, "region": ext}
        if var["sub"]:
            orig["subregion"] = model_parts("r", "s", v)
        seen = [f["type"] for f in out["features"]]
        for t in orig:
            cl.append(("every_feature_of_the_region_is_present", t in seen))
        for f in out["features"]:
            if f["type"] in orig:
                cl.append(("feature_shifted_covers_same_bases", L.And(wf_parts(f["loc"], rlen),
                           L.Iff(in_parts(x, orig[f["type"]]), in_parts(shifted(x), f["loc"])))))
            if f["protocluster_number"] is not None:
                cl.append(("protocluster_renumbered_from_one", f["protocluster_number"] == 1))
            if f["candidate_cluster_number"] is not None:
                cl.append(("candidate_renumbered_from_one", f["candidate_cluster_number"] == 1))
            if f["protoclusters"] is not None:
                cl.append(("candidate_refers_to_renumbered_protoclusters", L.And(len(f["protoclusters"]) == 1, [p == 1 for p in f["protoclusters"]])))
            if f["candidate_cluster_numbers"] is not None:
                cl.append(("region_refers_to_renumbered_candidates", L.And(len(f["candidate_cluster_numbers"]) == (0 if subonly else 1),
                                                                       [c == 1 for c in f["candidate_cluster_numbers"]])))
            if f["subregion_numbers"] is not None:
                cl.append(("region_refers_to_renumbered_subregions", L.And(len(f["subregion_numbers"]) == (1 if var["sub"] or subonly else 0),
                                                                       [s == 1 for s in f["subregion_numbers"]])))
            if f["subregion_number"] is not None:
                cl.append(("subregion_renumbered_from_one", f["subregion_number"] == 1))
            if f.get("leader_location") is not None:
                cl.append(("leader_location_shifted_with_the_region",
                           L.Iff(in_parts(x, model_parts("m", "s", v)), in_parts(shifted(x), f["leader_location"]))))
            if f["core_location"] is not None:
                cl.append(("core_location_shifted_with_the_region",
                           L.Iff(in_parts(x, model_parts("c", "s", v)), in_parts(shifted(x), f["core_location"]))))
        same = L.And([L.And(len(a) == len(b), [L.And(p[0] == q[0], p[1] == q[1]) for p, q in zip(a, b)])
                      for a, b in zip(out["before"], out["after"])])
        cl.append(("full_record_left_unchanged", L.And(len(out["before"]) == len(out["after"]), same, out["qualifiers_unchanged"])))
        if var["motif"]:
            cl.append(("motif_present", "CDS_motif" in seen))
        return cl


class RegionExtractMulti(Harness):
    """a region built by the real formation code from two protoclusters (so several candidate clusters, each referring to several
    protoclusters), any region of any record: every record-wide number of its areas is raised by a symbolic offset"""
    pid, name = "C12", "region_extract_multi"
    functions = RegionExtract.functions + ["antismash.common.secmet.record:Record.create_candidate_clusters",
                                           "antismash.common.secmet.record:Record.create_regions"]
    bound = ("the first region of a record with two protoclusters (cores inside extents; overlapping, nested, neighbouring or far apart; "
             "extents simple, the first optionally origin-spanning), the candidate clusters and regions the real formation code builds "
             "from them, and a real prepeptide (leader, core, tail) on a gene inside the first protocluster; symbolic coordinates and "
             "record length; the record-wide numbers of all protoclusters / candidates are raised by symbolic offsets")
    outside = RegionExtract.outside.replace("several candidates per region; ", "")
    stubs = RegionExtract.stubs + ["Protocluster.__hash__ pinned to hash(product)"]
    task_paths = 150

    def variants(self, tier):
        out = [{"shape": "s", "prepeptide": False}, {"shape": "s", "prepeptide": True}, {"shape": "o", "prepeptide": False}]
        if tier == "thorough":
            out.append({"shape": "o", "prepeptide": True})
        return out

    def vars(self, var):
        d = {"n": "int", "x": "int", "kp": "int", "kc": "int"}
        d.update(shape_vars("e0", var["shape"]))
        d.update(shape_vars("c0", "s"))
        d.update(shape_vars("e1", "s"))
        d.update(shape_vars("c1", "s"))
        d.update(shape_vars("g", "s"))
        return d

    def pre(self, var, v):
        n = v["n"]
        e0 = model_parts("e0", var["shape"], v)
        c = [shape_pre("e0", var["shape"], v, n), shape_pre("c0", "s", v, n), shape_pre("e1", "s", v, n), shape_pre("c1", "s", v, n),
             shape_pre("g", "s", v, n), contains_parts(e0, model_parts("c0", "s", v)),
             contains_parts(model_parts("e1", "s", v), model_parts("c1", "s", v)),
             contains_parts(model_parts("c0", "s", v), model_parts("g", "s", v)),
             0 <= v["x"], v["x"] < n, 0 <= v["kp"], 0 <= v["kc"]]
        if var["prepeptide"]:
            c.append(v["ge0"] - v["gs0"] == 18)       # leader M, core AGIC, tail C: six residues
        return L.And(c)

    def run(self, var, v):
        if L.issym(v["n"]):
            from ..core import ENG
            ENG.lazy_tokens = True
        Protocluster.__hash__ = lambda self: hash(self.product)
        n = v["n"]
        circ = var["shape"] == "o"
        rec = mkrecord(n, circ)
        rec.id = "rec"
        gene = DummyCDS(location=build("g", "s", v), locus_tag="gene", translation="A")
        rec.add_cds_feature(gene)
        for i, sh in enumerate((var["shape"], "s")):
            rec.add_protocluster(Protocluster(build("c%d" % i, "s", v), build("e%d" % i, sh, v), tool="test", product="p%d" % i,
                                              cutoff=1, neighbourhood_range=0, detection_rule="r"))
        if var["prepeptide"]:
            from antismash.common.secmet.features import Prepeptide
            pre = Prepeptide(build("g", "s", v), "lanthipeptide", "AGIC", "gene", "lanthipeptides", "Class-II", 15.5, 3000.25, 3010.75,
                             leader="M", tail="C")
            pre.domain_id = "lanthipeptides_gene_1"
            rec.add_cds_motif(pre)
        rec.create_candidate_clusters()
        rec.create_regions()
        # the region holding the first protocluster (and the gene); it may be any region of any record
        first = [p for p in rec.get_protoclusters() if p.product == "p0"][0]
        region = [r for r in rec.get_regions() if any(first in c.protoclusters for c in r.candidate_clusters)][0]
        for proto in rec.get_protoclusters():
            rec._protocluster_numbering[proto] = rec._protocluster_numbering[proto] + v["kp"]
        for cand in rec.get_candidate_clusters():
            rec._candidate_clusters_numbering[cand] = rec._candidate_clusters_numbering[cand] + v["kc"]
        bio = rec.to_biopython()
        members = region.get_unique_protoclusters()
        expected = {"protoclusters": sorted(((canon_loc(p.location), canon_loc(p.core_location), p.product) for p in members),
                                            key=lambda row: row[2]),
                    "candidates": [(canon_loc(c.location), sorted(p.product for p in c.protoclusters)) for c in region.candidate_clusters],
                    "region": canon_loc(region.location)}

        def quals(features):
            return [sorted((k, list(val) if isinstance(val, list) else val) for k, val in f.qualifiers.items()) for f in features]
        before = [canon_loc(f.location) for f in bio.features]
        quals_before = quals(bio.features)
        fake = FakeSeqRecord(n, bio.features, {"topology": "circular" if circ else "linear"})
        captured = []

        def snapshot(records, handle, fmt):
            out_rec = records[0]
            feats = []
            for f in out_rec.features:
                q = f.qualifiers
                row = {"type": f.type, "loc": canon_loc(f.location), "product": q.get("product", [None])[0],
                       "products": sorted(q.get("product", []))}
                for key in ("protocluster_number", "candidate_cluster_number"):
                    row[key] = cn(num(q[key][0])) if key in q else None
                for key in ("protoclusters", "candidate_cluster_numbers"):
                    row[key] = [cn(num(t)) for t in q[key]] if key in q else None
                for key in ("leader_location", "tail_location", "core_location"):
                    row[key] = canon_loc(location_from_string(q[key][0])) if key in q else None
                row["prepeptide"] = q.get("prepeptide", [None])[0]
                feats.append(row)
            captured.append({"len": cn(out_rec._n), "features": feats})
        orig_write = rh.seqio.write
        rh.seqio.write = snapshot
        try:
            data = rh.RegionData(start=region.start, end=region.end, candidate_clusters=region.candidate_clusters,
                                 subregions=region.subregions)
            rh.write_to_genbank(data, fake, None)
        finally:
            rh.seqio.write = orig_write
        res = captured[0]
        res.update({"before": before, "after": [canon_loc(f.location) for f in bio.features],
                    "qualifiers_unchanged": quals_before == quals(bio.features), "expected": expected})
        return res

    def post(self, var, v, out):
        if is_raised(out):
            return [("no_raise", False)]
        n, x = v["n"], v["x"]
        exp = out["expected"]
        region = [(p[0], p[1]) for p in exp["region"]]
        start, rlen = region[0][0], parts_len(region)

        def shifted(pos):
            return (pos - start + n) % n

        def same_bases(orig, new):
            return L.And(wf_parts(new, rlen), L.Iff(in_parts(x, [(p[0], p[1]) for p in orig]), in_parts(shifted(x), new)))
        cl = [("extract_has_the_region_length", out["len"] == rlen)]
        feats = out["features"]
        protos = [f for f in feats if f["type"] == "protocluster"]
        cores = [f for f in feats if f["type"] == "proto_core"]
        cands = [f for f in feats if f["type"] == "cand_cluster"]
        regions = [f for f in feats if f["type"] == "region"]
        m, k = len(exp["protoclusters"]), len(exp["candidates"])
        cl.append(("every_area_of_the_region_is_present_once",
                   len(protos) == m and len(cores) == m and len(cands) == k and len(regions) == 1
                   and sorted(f["product"] for f in protos) == [row[2] for row in exp["protoclusters"]]))
        if not (len(protos) == m and len(cores) == m and len(cands) == k and len(regions) == 1):
            return cl
        by_product = {row[2]: row for row in exp["protoclusters"]}
        number_of = {}
        for f in protos:
            loc, core, _prod = by_product[f["product"]]
            number_of[f["product"]] = f["protocluster_number"]
            cl.append(("feature_shifted_covers_same_bases", same_bases(loc, f["loc"])))
            cl.append(("core_location_shifted_with_the_region", same_bases(core, f["core_location"])))
        for f in cores:
            cl.append(("feature_shifted_covers_same_bases", same_bases(by_product[f["product"]][1], f["loc"])))
            cl.append(("core_feature_carries_its_protocluster_number", f["protocluster_number"] == number_of[f["product"]]))
        # numbers: 1..m and 1..k, each used once, in the order of the file
        cl.append(("protoclusters_renumbered_from_one", L.And([L.And(1 <= num_, num_ <= m) for num_ in number_of.values()],
                                                          m == 1 or list(number_of.values())[0] != list(number_of.values())[-1])))
        # (numbers follow the order of the full record, which need not be the order within the extract)
        cand_numbers = [f["candidate_cluster_number"] for f in cands]
        cl.append(("candidates_renumbered_from_one", L.And([L.And(1 <= c, c <= k) for c in cand_numbers],
                                                       [a != b for i, a in enumerate(cand_numbers) for b in cand_numbers[i + 1:]])))
        by_members = {tuple(products): loc for loc, products in exp["candidates"]}
        cl.append(("every_area_of_the_region_is_present_once", sorted(tuple(f["products"]) for f in cands) == sorted(by_members)))
        if sorted(tuple(f["products"]) for f in cands) != sorted(by_members):
            return cl
        for f in cands:
            loc, products = by_members[tuple(f["products"])], f["products"]
            cl.append(("feature_shifted_covers_same_bases", same_bases(loc, f["loc"])))
            cl.append(("candidate_refers_to_its_renumbered_protoclusters",
                       L.And(len(f["protoclusters"]) == len(products),
                             [L.Or([ref == number_of[prod] for ref in f["protoclusters"]]) for prod in products])))
        cl.append(("region_refers_to_renumbered_candidates",
                   L.And(len(regions[0]["candidate_cluster_numbers"]) == k,
                         [L.Or([ref == i + 1 for ref in regions[0]["candidate_cluster_numbers"]]) for i in range(k)])))
        cl.append(("feature_shifted_covers_same_bases", same_bases(exp["region"], regions[0]["loc"])))
        if var["prepeptide"]:
            gs = v["gs0"]
            motifs = {f["prepeptide"]: f for f in feats if f["type"] == "CDS_motif"}
            cl.append(("prepeptide_parts_present", sorted(motifs) == ["core", "leader", "tail"]))
            if sorted(motifs) == ["core", "leader", "tail"]:
                cl.append(("feature_shifted_covers_same_bases", L.And(same_bases([(gs, gs + 3, 1)], motifs["leader"]["loc"]),
                                                                     same_bases([(gs + 3, gs + 15, 1)], motifs["core"]["loc"]),
                                                                     same_bases([(gs + 15, gs + 18, 1)], motifs["tail"]["loc"]))))
                cl.append(("leader_and_tail_locations_shifted_with_the_region",
                           L.And(same_bases([(gs, gs + 3, 1)], motifs["core"]["leader_location"]),
                                 same_bases([(gs + 15, gs + 18, 1)], motifs["core"]["tail_location"]))))
        same = L.And([L.And(len(a) == len(b), [L.And(p[0] == q[0], p[1] == q[1]) for p, q in zip(a, b)])
                      for a, b in zip(out["before"], out["after"])])
        cl.append(("full_record_left_unchanged", L.And(len(out["before"]) == len(out["after"]), same, out["qualifiers_unchanged"])))
        return cl


HARNESSES = [RegionExtract(), RegionExtractMulti()]
