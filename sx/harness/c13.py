"""C13 - HMM hit refinement keeps the best non-overlapping hits, order-independently."""
import itertools

from antismash.common import hmmscan_refinement as hr

from .. import logic as L
from ..hbase import OSet
from .common import Harness, cn, is_raised

HR = "antismash.common.hmmscan_refinement:"
LENGTHS = {"a": 15, "b": 35}

# Python leaves set iteration order unspecified; the module's sets are replaced by an insertion-ordered model and the
# harness supplies every insertion order (see hbase.OSet)
hr.set = OSet


class FakeHSP:
    def __init__(self, query_id, hit_id, start, end, evalue, bitscore):
        self.query_id, self.hit_id = query_id, hit_id
        self.query_start, self.query_end = start, end
        self.evalue, self.bitscore = evalue, bitscore


class FakeQueryResult:
    def __init__(self, hsps):
        self.hsps = hsps


def margin(p, q):
    """allowed overlap of two hits: 20% of the longer profile"""
    return hr_fraction(max(LENGTHS[p], LENGTHS[q]))


def hr_fraction(length):
    from fractions import Fraction
    return Fraction(length, 5)


class Refine(Harness):
    pid, name = "C13", "refine"
    functions = [HR + "refine_hmmscan_results", HR + "gather_by_query", HR + "_remove_overlapping",
                 HR + "_merge_domain_list", HR + "_merge_immediate_neigbours", HR + "remove_incomplete",
                 HR + "HMMResult.merge", HR + "HMMResult.__eq__"]
    bound = ("k <= 3 (quick) / 4 (thorough) hits on one protein over 2 profiles (lengths 15 and 35), every profile assignment, "
             "symbolic start/end (ints) and score/e-value (reals), both modes, every input order (all k! insertion orders of the hit set)")
    outside = "k > 4; more than 2 profiles; other profile lengths; 'regulator' fallback of remove_incomplete"
    stubs = ["set iteration order modelled as insertion order, every insertion permutation supplied (hbase.OSet)",
             "doubles that are the nearest double of a simple fraction are read as that fraction (0.2*L, 1.5*L, 1/3): DESIGN 1.4"]
    task_paths = 150

    def shielded_pair_region(self, var, v):
        """known finding C13-1: _remove_overlapping compares a hit only with the last kept hit. Once a hit h that
        follows i in sort order has been appended after i (it starts no earlier than end_i - margin(i,h)), every later
        hit j is compared with h (or with whatever replaced h), never with i - although i and j may overlap beyond
        their own margin."""
        k = len(var["profiles"])
        opts = []
        for i, h, j in itertools.permutations(range(k), 3):
            pi, ph, pj = (var["profiles"][x] for x in (i, h, j))
            si, ei, sh, eh, sj, ej = v["s%d" % i], v["e%d" % i], v["s%d" % h], v["e%d" % h], v["s%d" % j], v["e%d" % j]
            opts.append(L.And(si <= sh, sh <= sj,
                              L.Min(ei, ej) - L.Max(si, sj) > margin(pi, pj),
                              sh >= ei - margin(pi, ph)))
        return L.Or(opts)

    def variants(self, tier):
        out = []
        kmax = 3 if tier == "quick" else 4
        for k in range(1, kmax + 1):
            for profs in itertools.product("ab", repeat=k):
                if profs != tuple(sorted(profs)) and tier == "quick" and k == 3:
                    continue   # quick: assignments up to renaming of hits
                if tier == "thorough" and k == 4 and profs not in (("a", "a", "a", "a"), ("a", "a", "b", "b"), ("a", "b", "a", "b"), ("a", "a", "a", "b")):
                    continue
                for mode in (False, True):
                    out.append({"profiles": list(profs), "neighbour_mode": mode})
        return out

    def vars(self, var):
        d = {}
        for i in range(len(var["profiles"])):
            d["s%d" % i] = "int"
            d["e%d" % i] = "int"
            d["sc%d" % i] = "real"
            d["ev%d" % i] = "real"
        return d

    def pre(self, var, v):
        k = len(var["profiles"])
        c = []
        for i in range(k):
            c += [0 <= v["s%d" % i], v["s%d" % i] < v["e%d" % i], v["e%d" % i] <= 100000, v["sc%d" % i] >= 0, v["ev%d" % i] > 0]
        # the hits are distinct (a set of raw hits)
        for i in range(k):
            for j in range(i + 1, k):
                if var["profiles"][i] == var["profiles"][j]:
                    c.append(L.Not(L.And(v["s%d" % i] == v["s%d" % j], v["e%d" % i] == v["e%d" % j],
                                         v["sc%d" % i] == v["sc%d" % j], v["ev%d" % i] == v["ev%d" % j])))
        return L.And(c)

    def run(self, var, v):
        k = len(var["profiles"])
        outs = []
        for perm in itertools.permutations(range(k)):
            hsps = [FakeHSP("cds", var["profiles"][i], v["s%d" % i], v["e%d" % i], v["ev%d" % i], v["sc%d" % i]) for i in perm]
            res = hr.refine_hmmscan_results([FakeQueryResult(hsps)], LENGTHS, neighbour_mode=var["neighbour_mode"])
            outs.append([(h.hit_id, cn(h.query_start), cn(h.query_end), h.bitscore, h.evalue) for h in res.get("cds", [])])
        return outs

    def post(self, var, v, out):
        if is_raised(out):
            return [("no_raise", False)]
        k = len(var["profiles"])
        first = out[0]
        same = []
        for other in out[1:]:
            same.append(L.And(len(other) == len(first),
                              [L.And(a[0] == b[0], a[1] == b[1], a[2] == b[2], a[3] == b[3], a[4] == b[4])
                               for a, b in zip(first, other)]))
        cl = [("same_result_for_every_input_order", L.And(same))]
        cl.append(("ordered_by_position", L.And([a[1] <= b[1] for a, b in zip(first, first[1:])])))
        for a, b in itertools.combinations(first, 2):
            ov = L.Min(a[2], b[2]) - L.Max(a[1], b[1])
            cl.append(("no_two_kept_hits_overlap_beyond_margin", ov <= margin(a[0], b[0])))
        for h in first:
            # an input hit, or the merge of a non-empty set of same-profile inputs spanning them with best score / e-value
            options = []
            idxs = [i for i in range(k) if var["profiles"][i] == h[0]]
            for r in range(1, len(idxs) + 1):
                for sub in itertools.combinations(idxs, r):
                    options.append(L.And(h[1] == L.Min([v["s%d" % i] for i in sub]), h[2] == L.Max([v["e%d" % i] for i in sub]),
                                         h[3] == L.Max([v["sc%d" % i] for i in sub]), h[4] == L.Min([v["ev%d" % i] for i in sub])))
            cl.append(("kept_hit_is_input_or_spanning_merge", L.Or(options)))
        return cl


HARNESSES = [Refine()]
