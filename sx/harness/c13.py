"""C13 - HMM hit refinement keeps the best non-overlapping hits, order-independently."""
import itertools

from antismash.common import hmmscan_refinement as hr

from .. import logic as L
from ..hbase import OSet
from .common import Harness, cn, is_raised

HR = "antismash.common.hmmscan_refinement:"
LENGTHS = {"a": 15, "b": 35}

# Python leaves set iteration order unspecified; the module's sets are replaced by an insertion-ordered model and the
# harness supplies every insertion order (see hbase.OSet)
hr.set = OSet


class FakeHSP:
    def __init__(self, query_id, hit_id, start, end, evalue, bitscore):
        self.query_id, self.hit_id = query_id, hit_id
        self.query_start, self.query_end = start, end
        self.evalue, self.bitscore = evalue, bitscore


class FakeQueryResult:
    def __init__(self, hsps):
        self.hsps = hsps


def margin(p, q):
    """allowed overlap of two hits: 20% of the longer profile"""
    return hr_fraction(max(LENGTHS[p], LENGTHS[q]))


def hr_fraction(length):
    from fractions import Fraction
    return Fraction(length, 5)


def reference_refine(hits, neighbour_mode):
    """the documented refinement written out independently on plain tuples (profile, start, end, score, evalue): sort by position
    (ties: better score, better e-value, shorter, profile name); overlaps beyond 20% of the longer profile keep the better score,
    scanning left to right against the last kept hit; same-profile fragments are one domain while their span stays below 1.5
    profile lengths (all of a profile's hits in normal mode, where the last such run represents the profile; adjacent kept hits in
    neighbour mode); finally hits longer than half their profile, else the proportionally longest if above a third"""
    from fractions import Fraction

    def merge(a, b):
        return (a[0], a[1] if a[1] <= b[1] else b[1], a[2] if a[2] >= b[2] else b[2], a[3] if a[3] >= b[3] else b[3],
                a[4] if a[4] <= b[4] else b[4])

    def remove_overlapping(items):
        kept = [items[0]]
        for item in items[1:]:
            prev = kept[-1]
            if item[1] < prev[2] - margin(item[0], prev[0]):
                if item[3] > prev[3]:
                    kept[-1] = item
            else:
                kept.append(item)
        return kept

    def within_one_domain(first, other):
        return other[2] - first[1] < Fraction(3, 2) * LENGTHS[other[0]]
    items = sorted(hits, key=lambda h: (h[1], -h[3], h[4], h[2], h[0]))
    if neighbour_mode:
        items = remove_overlapping(items)
        merged = [items[0]]
        for item in items[1:]:
            if item[0] == merged[-1][0] and within_one_domain(merged[-1], item):
                merged[-1] = merge(merged[-1], item)
            else:
                merged.append(item)
        items = merged
    else:
        runs = {}
        for item in items:
            if item[0] in runs and within_one_domain(runs[item[0]], item):
                runs[item[0]] = merge(runs[item[0]], item)
            else:
                runs[item[0]] = item
        items = remove_overlapping(sorted(runs.values(), key=lambda h: h[1]))
    complete = [h for h in items if 2 * (h[2] - h[1]) > LENGTHS[h[0]]]
    if complete:
        return complete
    best = None
    for h in items:
        # proportional length (e - s) / L, compared by cross-multiplication
        if best is None or (h[2] - h[1]) * LENGTHS[best[0]] > (best[2] - best[1]) * LENGTHS[h[0]]:
            best = h
    if best is not None and 3 * (best[2] - best[1]) > LENGTHS[best[0]]:
        return [best]
    return []


class Refine(Harness):
    pid, name = "C13", "refine"
    functions = [HR + "refine_hmmscan_results", HR + "gather_by_query", HR + "_remove_overlapping",
                 HR + "_merge_domain_list", HR + "_merge_immediate_neigbours", HR + "remove_incomplete",
                 HR + "HMMResult.merge", HR + "HMMResult.__eq__"]
    bound = ("k <= 3 hits on one protein over 2 profiles (lengths 15 and 35), every profile assignment (quick: up to renaming), "
             "symbolic start/end (ints) and score/e-value (reals), both modes, every input order (all k! insertion orders of the hit set)")
    outside = "k > 3; more than 2 profiles; other profile lengths; 'regulator' fallback of remove_incomplete"
    stubs = ["set iteration order modelled as insertion order, every insertion permutation supplied (hbase.OSet)",
             "doubles that are the nearest double of a simple fraction are read as that fraction (0.2*L, 1.5*L, 1/3): DESIGN 1.4"]
    task_paths = 150

    def shielded_pair_region(self, var, v):
        """known finding C13-1: _remove_overlapping compares a hit only with the last kept hit. Once a hit h that
        follows i in sort order has been appended after i (it starts no earlier than end_i - margin(i,h)), every later
        hit j is compared with h (or with whatever replaced h), never with i - although i and j may overlap beyond
        their own margin."""
        k = len(var["profiles"])
        opts = []
        for i, h, j in itertools.permutations(range(k), 3):
            pi, ph, pj = (var["profiles"][x] for x in (i, h, j))
            si, ei, sh, eh, sj, ej = v["s%d" % i], v["e%d" % i], v["s%d" % h], v["e%d" % h], v["s%d" % j], v["e%d" % j]
            opts.append(L.And(si <= sh, sh <= sj,
                              L.Min(ei, ej) - L.Max(si, sj) > margin(pi, pj),
                              sh >= ei - margin(pi, ph)))
        return L.Or(opts)

    def variants(self, tier):
        out = []
        # (k = 4: a single variant - 24 input orders of four symbolic hits - does not finish within 10 minutes on 16 cores)
        for k in range(1, 4):
            for profs in itertools.product("ab", repeat=k):
                if profs != tuple(sorted(profs)) and tier == "quick" and k == 3:
                    continue   # quick: assignments up to renaming of hits
                for mode in (False, True):
                    out.append({"profiles": list(profs), "neighbour_mode": mode})
        return out

    def vars(self, var):
        d = {}
        for i in range(len(var["profiles"])):
            d["s%d" % i] = "int"
            d["e%d" % i] = "int"
            d["sc%d" % i] = "real"
            d["ev%d" % i] = "real"
        return d

    def pre(self, var, v):
        k = len(var["profiles"])
        c = []
        for i in range(k):
            c += [0 <= v["s%d" % i], v["s%d" % i] < v["e%d" % i], v["e%d" % i] <= 100000, v["sc%d" % i] >= 0, v["ev%d" % i] > 0]
        # the hits are distinct (a set of raw hits)
        for i in range(k):
            for j in range(i + 1, k):
                if var["profiles"][i] == var["profiles"][j]:
                    c.append(L.Not(L.And(v["s%d" % i] == v["s%d" % j], v["e%d" % i] == v["e%d" % j],
                                         v["sc%d" % i] == v["sc%d" % j], v["ev%d" % i] == v["ev%d" % j])))
        return L.And(c)

    def run(self, var, v):
        k = len(var["profiles"])
        outs = []
        for perm in itertools.permutations(range(k)):
            hsps = [FakeHSP("cds", var["profiles"][i], v["s%d" % i], v["e%d" % i], v["ev%d" % i], v["sc%d" % i]) for i in perm]
            res = hr.refine_hmmscan_results([FakeQueryResult(hsps)], LENGTHS, neighbour_mode=var["neighbour_mode"])
            outs.append([(h.hit_id, cn(h.query_start), cn(h.query_end), h.bitscore, h.evalue) for h in res.get("cds", [])])
        ref = reference_refine([(var["profiles"][i], v["s%d" % i], v["e%d" % i], v["sc%d" % i], v["ev%d" % i]) for i in range(k)],
                               var["neighbour_mode"])
        outs.append([(h[0], cn(h[1]), cn(h[2]), h[3], h[4]) for h in ref])
        return outs

    def post(self, var, v, out):
        if is_raised(out):
            return [("no_raise", False)]
        k = len(var["profiles"])
        out, ref = out[:-1], out[-1]
        first = out[0]
        same = []
        for other in out[1:]:
            same.append(L.And(len(other) == len(first),
                              [L.And(a[0] == b[0], a[1] == b[1], a[2] == b[2], a[3] == b[3], a[4] == b[4])
                               for a, b in zip(first, other)]))
        cl = [("same_result_for_every_input_order", L.And(same))]
        cl.append(("ordered_by_position", L.And([a[1] <= b[1] for a, b in zip(first, first[1:])])))
        for a, b in itertools.combinations(first, 2):
            ov = L.Min(a[2], b[2]) - L.Max(a[1], b[1])
            cl.append(("no_two_kept_hits_overlap_beyond_margin", ov <= margin(a[0], b[0])))
        for h in first:
            # an input hit, or the merge of a non-empty set of same-profile inputs spanning them with best score / e-value
            options = []
            idxs = [i for i in range(k) if var["profiles"][i] == h[0]]
            for r in range(1, len(idxs) + 1):
                for sub in itertools.combinations(idxs, r):
                    options.append(L.And(h[1] == L.Min([v["s%d" % i] for i in sub]), h[2] == L.Max([v["e%d" % i] for i in sub]),
                                         h[3] == L.Max([v["sc%d" % i] for i in sub]), h[4] == L.Min([v["ev%d" % i] for i in sub])))
            cl.append(("kept_hit_is_input_or_spanning_merge", L.Or(options)))
        # which fragments count as one domain, who wins an overlap and which fragments are incomplete: the documented rules
        cl.append(("result_is_the_documented_refinement",
                   L.And(len(ref) == len(first), [L.And(a[0] == b[0], a[1] == b[1], a[2] == b[2], a[3] == b[3], a[4] == b[4])
                                                  for a, b in zip(first, ref)])))
        return cl


HARNESSES = [Refine()]


# ------------------------------------------------------------------------------------------------
from antismash.common.hmm_rule_parser import cluster_prediction as cp  # noqa: E402

CPM = "antismash.common.hmm_rule_parser.cluster_prediction:"


class FakeProfileHSP:
    """stand-in for Bio's HSP as used by filter_results: identity equality; the hash is a harness-chosen small
    int, so that the iteration order of the sets built from these objects is deterministic within a run and
    every order is reached through the permutations of that numbering (variants)"""
    def __init__(self, hid, query_id, start, end, bitscore):
        self.hid, self.query_id, self.hit_id = hid, query_id, "cds"
        self.hit_start, self.hit_end, self.bitscore = start, end, bitscore

    def __hash__(self):
        return self.hid

    def __eq__(self, other):
        return self is other

    def __ne__(self, other):
        return self is not other


class FilterEquivalent(Harness):
    pid, name = "C13", "filter_equivalent"
    functions = [CPM + "filter_results", CPM + "filter_result_multiple", CPM + "hsp_overlap_size"]
    bound = ("k <= 3 (quick, plus four-hit chains for two profile layouts) / 4 (thorough) hits on one gene, profiles from {p, q} (one equivalence group) and r (outside it), "
             "symbolic hit coordinates and bitscores, every input order and every set-iteration numbering")
    outside = "k > 4; several genes (the functions treat genes independently); more than one equivalence group"
    stubs = ["Bio HSP objects replaced by a stand-in with the attributes filter_results reads; set iteration order chosen by the harness"]

    def variants(self, tier):
        out = []
        kmax = 3 if tier == "quick" else 4
        for k in range(2, kmax + 1):
            for profs in itertools.product("pqr", repeat=k):
                if profs != tuple(sorted(profs)):
                    continue
                if tier == "thorough" and k == 4 and profs.count("r") > 1:
                    continue
                for numbering in itertools.permutations(range(k)):
                    if k == 4 and numbering[0] > numbering[-1]:
                        continue
                    out.append({"profiles": list(profs), "numbering": list(numbering)})
        if tier == "quick":
            # chains of four overlapping hits need four hits: two profile layouts, two numberings
            for profs in (("p", "p", "q", "q"), ("p", "q", "p", "q")):
                for numbering in ((0, 1, 2, 3), (2, 0, 3, 1)):
                    out.append({"profiles": list(profs), "numbering": list(numbering)})
        return out

    def vars(self, var):
        d = {}
        for i in range(len(var["profiles"])):
            d["s%d" % i] = "int"
            d["e%d" % i] = "int"
            d["sc%d" % i] = "real"
        return d

    def pre(self, var, v):
        k = len(var["profiles"])
        c = []
        for i in range(k):
            c += [0 <= v["s%d" % i], v["s%d" % i] < v["e%d" % i], v["sc%d" % i] > 0]
        return L.And(c)

    def run(self, var, v):
        k = len(var["profiles"])
        outs = []
        perms = list(itertools.permutations(range(k))) if k <= 3 else [tuple(range(k)), tuple(reversed(range(k))), (1, 3, 0, 2)]
        for perm in perms:
            hits = [FakeProfileHSP(var["numbering"][i], var["profiles"][i], v["s%d" % i], v["e%d" % i], v["sc%d" % i])
                    for i in range(k)]
            ordered = [hits[i] for i in perm]
            results = list(ordered)
            by_id = {"cds": list(ordered)}
            results, by_id = cp.filter_results(results, by_id, [{"p", "q"}])
            survivors_1 = sorted(hits.index(h) for h in by_id["cds"])
            results, by_id = cp.filter_result_multiple(results, by_id)
            survivors_2 = sorted(hits.index(h) for h in by_id["cds"])
            outs.append([survivors_1, survivors_2, sorted(hits.index(h) for h in results) == survivors_2])
        return outs

    def post(self, var, v, out):
        if is_raised(out):
            return [("no_raise", False)]
        k = len(var["profiles"])
        profs = var["profiles"]
        competing = len({p for p in profs if p in "pq"}) >= 2
        ov = [[(L.Min(v["e%d" % i], v["e%d" % j]) - L.Max(v["s%d" % i], v["s%d" % j]) > 20) if i != j else True
               for j in range(k)] for i in range(k)]
        reach = L.closure(k, ov) if competing else [[i == j for j in range(k)] for i in range(k)]
        distinct = L.And([v["sc%d" % i] != v["sc%d" % j] for i in range(k) for j in range(i + 1, k)])
        cl = []
        first = out[0]
        for other in out[1:]:
            cl.append(("same_survivors_for_every_order_when_scores_differ",
                       L.Implies(distinct, first[0] == other[0] and first[1] == other[1])))
        for o in out:
            s1, s2 = o[0], o[1]
            for i in range(k):
                # best of its overlap group: no group member scores strictly higher; exactly one survivor per group
                beaten = L.Or([L.And(reach[i][j], v["sc%d" % j] > v["sc%d" % i]) for j in range(k) if j != i])
                cl.append(("stage1_strictly_beaten_hit_is_removed", L.Implies(beaten, i not in s1)))
                group_survivors = L.Count([L.And(reach[i][j], j in s1) for j in range(k)])
                cl.append(("stage1_one_survivor_per_overlap_group", group_survivors == 1))
            for i in s1:
                same = [j for j in s1 if profs[j] == profs[i] and j != i]
                beaten = L.Or([v["sc%d" % j] > v["sc%d" % i] for j in same])
                cl.append(("stage2_best_hit_of_each_profile_survives", L.Implies(beaten, i not in s2)))
            for p in set(profs[i] for i in s1):
                cl.append(("stage2_exactly_one_hit_per_profile", len([i for i in s2 if profs[i] == p]) == 1))
            cl.append(("stage2_only_drops", set(s2) <= set(s1)))
            cl.append(("result_list_matches_mapping", o[2]))
        return cl


HARNESSES = [Refine(), FilterEquivalent()]


# ------------------------------------------------------------------------------------------------
from antismash.common import hmmer as hm  # noqa: E402


class _Len:
    """a translation that only has a length"""
    def __init__(self, n):
        self.n = n

    def __len__(self):
        return self.n

    def __hash__(self):
        return 0

    def __eq__(self, other):
        return isinstance(other, _Len)


from fractions import Fraction  # noqa: E402

CUTOFFS = {"p": Fraction(20), "q": Fraction(30)}


class HmmerOverlap(Harness):
    pid, name = "C13", "hmmer_overlap"
    functions = ["antismash.common.hmmer:remove_overlapping", "antismash.common.hmmer:HmmerHit"]
    bound = ("k <= 3 hits over 2 profiles with concrete cutoffs 20 and 30, symbolic protein coordinates and scores (reals), "
             "overlap_limit symbolic in [1, 50], every input order")
    outside = "k > 3; other cutoffs; the 1/len(hit) term of the ranking is modelled exactly (rational)"
    stubs = ["a hit's score is given by its reciprocal r (score = 1/r), so that cutoff/score is the linear term cutoff*r; "
             "cutoffs and scores are exact rationals in the replay"]
    exact_reals = True

    def variants(self, tier):
        out = []
        for k in (2, 3):
            for profs in itertools.product("pq", repeat=k):
                if profs == tuple(sorted(profs)):
                    out.append({"profiles": list(profs)})
        return out

    def vars(self, var):
        d = {"limit": "int"}
        for i in range(len(var["profiles"])):
            d["s%d" % i] = "int"
            d["e%d" % i] = "int"
            d["sc%d" % i] = "real"     # the reciprocal of the hit's score
        return d

    def pre(self, var, v):
        k = len(var["profiles"])
        c = [1 <= v["limit"], v["limit"] <= 50]
        for i in range(k):
            c += [0 <= v["s%d" % i], v["s%d" % i] < v["e%d" % i], v["e%d" % i] <= 5000, v["sc%d" % i] > 0, v["sc%d" % i] <= 1]
        for i in range(k):
            for j in range(i + 1, k):
                if var["profiles"][i] == var["profiles"][j]:
                    c.append(L.Not(L.And(v["s%d" % i] == v["s%d" % j], v["e%d" % i] == v["e%d" % j], v["sc%d" % i] == v["sc%d" % j])))
        return L.And(c)

    def run(self, var, v):
        from .. import logic
        k = len(var["profiles"])
        if logic.issym(v["limit"]):
            from .. import core
            scores = [core.SymRecip(v["sc%d" % i]) for i in range(k)]
        else:
            scores = [1 / Fraction(v["sc%d" % i]) for i in range(k)]
        hits = [hm.HmmerHit("loc", "lbl", "cds", "dom", 1e-5, scores[i], var["profiles"][i], "desc",
                            v["s%d" % i], v["e%d" % i], _Len(v["e%d" % i] - v["s%d" % i])) for i in range(k)]
        outs = []
        for perm in itertools.permutations(range(k)):
            res = hm.remove_overlapping([hits[i] for i in perm], CUTOFFS, overlap_limit=v["limit"])
            outs.append([[j for j in range(k) if hits[j] is h][0] for h in res])
        return outs

    def post(self, var, v, out):
        if is_raised(out):
            return [("no_raise", False)]
        k = len(var["profiles"])
        profs = var["profiles"]
        lim = v["limit"]

        def overlap(i, j):
            return L.And(v["s%d" % i] <= v["e%d" % j] - lim, v["e%d" % i] >= v["s%d" % j] + lim)

        def better(i, j):
            """i ranks strictly before j: higher score/cutoff, then longer, then earlier start, then identifier"""
            from fractions import Fraction
            ci, cj = Fraction(CUTOFFS[profs[i]]), Fraction(CUTOFFS[profs[j]])
            ni, nj = ci * v["sc%d" % i], cj * v["sc%d" % j]      # normalised = cutoff / score = cutoff * reciprocal
            li, lj = v["e%d" % i] - v["s%d" % i], v["e%d" % j] - v["s%d" % j]
            return L.Or(ni < nj, L.And(ni == nj, L.Or(li > lj, L.And(li == lj, L.Or(v["s%d" % i] < v["s%d" % j],
                        L.And(v["s%d" % i] == v["s%d" % j], profs[i] < profs[j]))))))
        first = out[0]
        cl = [("same_result_for_every_input_order", all(o == first for o in out)),
              ("ordered_by_position", L.And([v["s%d" % a] <= v["s%d" % b] for a, b in zip(first, first[1:])])),
              ("nothing_left", len(first) >= 1)]
        for a, b in itertools.combinations(first, 2):
            cl.append(("no_two_kept_hits_overlap_beyond_limit", L.Not(overlap(a, b))))
        for i in range(k):
            if i not in first:
                cl.append(("dropped_only_for_a_better_overlapping_kept_hit",
                           L.Or([L.And(overlap(i, j), better(j, i)) for j in first])))
        return cl


HARNESSES = [Refine(), FilterEquivalent(), HmmerOverlap()]
