"""C11 - reusing saved module results reproduces the original results (object level: JSON text is identity)."""
from antismash.common import hmmer as hm
from antismash.common.hmm_rule_parser import cluster_prediction as cp
from antismash.common.hmm_rule_parser.structures import Multipliers
from antismash.common.secmet.features.protocluster import Protocluster
from antismash.common.secmet.qualifiers import SecMetQualifier
from antismash.common.secmet.test.helpers import DummyCDS
from antismash.config import update_config
from antismash.modules.tta import tta

from .. import logic as L
from .c04 import build, model_parts, shape_pre, shape_vars
from .c10 import qual_value, tree_copy
from .c13 import _Len
from .common import Harness, canon_loc, cn, contains_parts, is_raised, mkrecord


def tree_equal(a, b):
    """structural equality of JSON-like trees whose leaves may be symbolic numbers (compared by the solver) or rendered numbers"""
    conds = []

    def walk(x, y):
        if isinstance(x, dict):
            if not isinstance(y, dict) or sorted(x) != sorted(y):
                conds.append(False)
                return
            for k in x:
                walk(x[k], y[k])
        elif isinstance(x, (list, tuple)):
            if not isinstance(y, (list, tuple)) or len(x) != len(y):
                conds.append(False)
                return
            for p, q in zip(x, y):
                walk(p, q)
        elif isinstance(x, str) and isinstance(y, str):
            conds.append(x == y)
        else:
            conds.append(x == y)
    walk(a, b)
    return L.And(conds)


class RuleResults(Harness):
    pid, name = "C11", "rule_results"
    functions = ["antismash.common.hmm_rule_parser.cluster_prediction:RuleDetectionResults.to_json",
                 "antismash.common.hmm_rule_parser.cluster_prediction:RuleDetectionResults.from_json",
                 "antismash.common.hmm_rule_parser.cluster_prediction:CDSResults.to_json",
                 "antismash.common.hmm_rule_parser.cluster_prediction:CDSResults.from_json",
                 "antismash.common.secmet.features.protocluster:Protocluster.to_biopython",
                 "antismash.common.secmet.features.protocluster:Protocluster.from_biopython",
                 "antismash.common.serialiser:feature_to_json", "antismash.common.serialiser:feature_from_json"]
    bound = ("rule detection results with one protocluster (symbolic core inside symbolic extent, simple or origin-spanning; symbolic "
             "cutoff and neighbourhood) and one gene with definition domains; schema version of the saved results symbolic")
    outside = "JSON text; several protoclusters (each is converted independently); dynamic profile hits"
    stubs = ["json.dumps/loads modelled as identity on the tree", "rendered integers are opaque per-expression tokens without equality forks"]

    def variants(self, tier):
        return [{"shape": "s"}, {"shape": "o"}]

    def vars(self, var):
        d = {"n": "int", "cutoff": "int", "nb": "int", "schema": "int"}
        d.update(shape_vars("e", var["shape"]))
        d.update(shape_vars("c", "s"))
        d.update(shape_vars("g", "s"))
        return d

    def pre(self, var, v):
        n = v["n"]
        return L.And(shape_pre("e", var["shape"], v, n), shape_pre("c", "s", v, n), shape_pre("g", "s", v, n),
                     contains_parts(model_parts("e", var["shape"], v), model_parts("c", "s", v)),
                     contains_parts(model_parts("c", "s", v), model_parts("g", "s", v)),
                     v["cutoff"] >= 0, v["nb"] >= 0, 0 <= v["schema"], v["schema"] <= 9)

    def run(self, var, v):
        if L.issym(v["n"]):
            from ..core import ENG
            ENG.lazy_tokens = True
        rec = mkrecord(v["n"], var["shape"] == "o")
        gene = DummyCDS(location=build("g", "s", v), locus_tag="gene", translation="M")
        rec.add_cds_feature(gene)
        proto = Protocluster(build("c", "s", v), build("e", var["shape"], v), tool="rule-based-clusters", product="prod",
                             cutoff=v["cutoff"], neighbourhood_range=v["nb"], detection_rule="a and b", product_category="cat")
        cds_results = cp.CDSResults(gene, [SecMetQualifier.Domain("a", 1e-5, 50., 3, "tool")], {"prod": {"a", "b"}})
        results = cp.RuleDetectionResults({proto: [cds_results]}, "tool", [], Multipliers())
        saved = results.to_json()
        current = cp.RuleDetectionResults.schema_version
        saved["schema_version"] = v["schema"]           # results written by any version of the schema
        reloaded = cp.RuleDetectionResults.from_json(saved, rec)
        if reloaded is None:
            return {"reused": False, "current_schema": current}
        again = reloaded.to_json()
        protos = reloaded.protoclusters
        return {"reused": True, "current_schema": current, "saved": saved, "again": again,
                "protoclusters": [(p.product, canon_loc(p.location), canon_loc(p.core_location), cn(p.cutoff), cn(p.neighbourhood_range),
                                   p.detection_rule, p.product_category, p.tool) for p in protos],
                "original": [("prod", canon_loc(proto.location), canon_loc(proto.core_location), cn(proto.cutoff),
                              cn(proto.neighbourhood_range), proto.detection_rule, proto.product_category, proto.tool)]}

    def post(self, var, v, out):
        if is_raised(out):
            return [("no_raise", False)]
        cl = [("other_schema_versions_are_discarded", L.Iff(out["reused"], v["schema"] == out["current_schema"]))]
        if out["reused"]:
            cl.append(("saved_again_is_identical", tree_equal(out["saved"], out["again"])))
            cl.append(("same_protoclusters_added", tree_equal(out["original"], out["protoclusters"])))
        return cl


class TTAReuse(Harness):
    pid, name = "C11", "tta"
    functions = ["antismash.modules.tta.tta:TTAResults.to_json", "antismash.modules.tta.tta:TTAResults.from_json",
                 "antismash.modules.tta.tta:TTAResults.new_feature_from_basics"]
    bound = ("TTA results with 0-2 codon markers at symbolic positions; GC content of the record, the threshold the results were made with "
             "and the thresholds of the reusing run and of a further run reusing what that one saved symbolic reals in [0, 1]; schema "
             "version symbolic")
    outside = "detection itself (string scanning of the sequence)"
    stubs = ["get_config().tta_threshold set through update_config"]

    def variants(self, tier):
        return [{"codons": k} for k in (0, 1, 2)]

    def vars(self, var):
        d = {"gc": "real", "old": "real", "new": "real", "third": "real", "schema": "int"}
        for i in range(var["codons"]):
            d["p%d" % i] = "int"
        return d

    def pre(self, var, v):
        return L.And([L.And(0 <= v[k], v[k] <= 1) for k in ("gc", "old", "new", "third")], 0 <= v["schema"], v["schema"] <= 3,
                     [L.And(0 <= v["p%d" % i], v["p%d" % i] <= 1000) for i in range(var["codons"])])

    def run(self, var, v):
        rec = mkrecord(2000, False)
        rec.id = "rec"
        # what detect() produces for a record of GC content `gc` under threshold `old`: codons only if gc >= old
        original = tta.TTAResults("rec", v["gc"], v["old"])
        detected = True if v["gc"] >= v["old"] else False
        if detected:
            for i in range(var["codons"]):
                original.new_feature_from_basics(v["p%d" % i], 1 if i % 2 == 0 else -1)
        saved = original.to_json()
        saved["schema_version"] = v["schema"]
        update_config({"tta_threshold": v["new"]})
        reloaded = tta.TTAResults.from_json(saved, rec)
        if reloaded is None:
            return {"reused": False, "detected": detected}
        again = reloaded.to_json()
        # a further cycle: what was just saved is offered to a run with yet another threshold
        update_config({"tta_threshold": v["third"]})
        third = tta.TTAResults.from_json(tree_copy(again), rec)
        return {"reused": True, "detected": detected, "saved": saved, "again": again,
                "features": [canon_loc(f.location) for f in reloaded.features],
                "original_features": [canon_loc(f.location) for f in original.features],
                "third_reused": third is not None,
                "third_features": [canon_loc(f.location) for f in third.features] if third is not None else None}

    def post(self, var, v, out):
        if is_raised(out):
            return [("no_raise", False)]
        same_settings = v["new"] == v["old"]
        current = v["schema"] == tta.TTAResults.schema_version
        cl = [("other_schema_versions_are_discarded", L.Implies(L.Not(current), not out["reused"])),
              ("same_settings_are_reused", L.Implies(L.And(current, same_settings), out["reused"]))]
        if out["reused"]:
            cl.append(("same_settings_same_features", L.Implies(same_settings, tree_equal(out["features"], out["original_features"]))))
            cl.append(("same_settings_saved_again_is_identical",
                       L.Implies(same_settings, tree_equal({k: val for k, val in out["saved"].items() if k != "threshold"},
                                                           {k: val for k, val in out["again"].items() if k != "threshold"}))))
            # a run whose threshold now excludes the record must not report codons; one that newly includes it must not reuse
            cl.append(("no_codons_when_record_is_below_the_new_threshold", L.Implies(v["gc"] < v["new"], len(out["features"]) == 0)))
            cl.append(("not_reused_when_the_old_run_skipped_what_the_new_one_wants",
                       L.Not(L.And(v["gc"] < v["old"], v["gc"] >= v["new"]))))
            # the same two demands on the next cycle, whose input is the JSON saved by this one
            if out["third_reused"]:
                cl.append(("next_cycle_no_codons_when_record_is_below_its_threshold",
                           L.Implies(v["gc"] < v["third"], len(out["third_features"]) == 0)))
                cl.append(("next_cycle_not_reused_when_codons_were_skipped_that_it_wants",
                           L.Not(L.And(v["gc"] >= v["third"], L.Or(v["gc"] < v["old"], v["gc"] < v["new"])))))
                cl.append(("next_cycle_same_features_when_it_wants_them",
                           L.Implies(v["gc"] >= v["third"], tree_equal(out["third_features"], out["original_features"]))))
        return cl


class HmmerReuse(Harness):
    pid, name = "C11", "hmmer_results"
    functions = ["antismash.common.hmmer:HmmerResults.to_json", "antismash.common.hmmer:HmmerResults.from_json",
                 "antismash.common.hmmer:HmmerResults.refilter", "antismash.common.hmmer:HmmerHit.to_json"]
    bound = ("HMMer-based results with 2 hits (symbolic protein coordinates, scores and e-values), generated under symbolic max e-value / "
             "min score, reloaded and refiltered under symbolic new settings; record id matching or not; schema symbolic")
    outside = "add_to_record (PFAM feature construction needs the database version from the file system)"

    def variants(self, tier):
        return [{"same_record": True}, {"same_record": False}]

    def vars(self, var):
        d = {"ev_old": "real", "sc_old": "real", "ev_new": "real", "sc_new": "real", "schema": "int"}
        for i in range(2):
            d.update({"s%d" % i: "int", "e%d" % i: "int", "sc%d" % i: "real", "ev%d" % i: "real"})
        return d

    def pre(self, var, v):
        c = [v["ev_old"] > 0, v["ev_new"] > 0, v["sc_old"] >= 0, v["sc_new"] >= 0, 0 <= v["schema"], v["schema"] <= 3]
        for i in range(2):
            c += [0 <= v["s%d" % i], v["s%d" % i] < v["e%d" % i], v["e%d" % i] <= 3000,
                  v["sc%d" % i] >= v["sc_old"], v["ev%d" % i] <= v["ev_old"], v["ev%d" % i] > 0]
        return L.And(c)

    def run(self, var, v):
        rec = mkrecord(10000, False)
        rec.id = "rec"
        hits = [hm.HmmerHit("[0:9]", "lbl", "cds", "dom%d" % i, v["ev%d" % i], v["sc%d" % i], "PF%d" % i, "desc",
                            v["s%d" % i], v["e%d" % i], _Len(v["e%d" % i] - v["s%d" % i])) for i in range(2)]
        original = hm.HmmerResults("rec" if var["same_record"] else "other", v["ev_old"], v["sc_old"], "db", "tool", hits)
        saved = original.to_json()
        saved["schema"] = v["schema"]
        reloaded = hm.HmmerResults.from_json(saved, rec)
        if reloaded is None:
            return {"reused": False}
        out = {"reused": True, "round_trip_same": tree_equal(saved, reloaded.to_json())}
        try:
            refiltered = reloaded.refilter(v["ev_new"], v["sc_new"])
            out["refilter"] = "ok"
            out["kept"] = [[j for j in range(2) if refiltered.hits[k] is reloaded.hits[k] and h.domain == "dom%d" % j][0]
                           for k, h in enumerate(refiltered.hits)]
        except ValueError:
            out["refilter"] = "refused"
        return out

    def post(self, var, v, out):
        if is_raised(out):
            return [("no_raise", False)]
        usable = L.And(var["same_record"], v["schema"] == hm.HmmerResults.schema_version)
        cl = [("other_record_or_schema_is_discarded", L.Iff(out["reused"], usable))]
        if out["reused"]:
            cl.append(("saved_again_is_identical", out["round_trip_same"]))
            stricter = L.And(v["ev_new"] <= v["ev_old"], v["sc_new"] >= v["sc_old"])
            cl.append(("looser_settings_are_refused", L.Iff(out["refilter"] == "ok", stricter)))
            if out["refilter"] == "ok":
                for i in range(2):
                    cl.append(("stricter_settings_keep_exactly_the_passing_hits",
                               L.Iff(i in out["kept"], L.And(v["sc%d" % i] >= v["sc_new"], v["ev%d" % i] <= v["ev_new"]))))
        return cl


HARNESSES = [RuleResults(), TTAReuse(), HmmerReuse()]


from .c14 import BuildModules  # noqa: E402


class ModuleReload(BuildModules):
    """NRPS/PKS module results: every module accepted while building must be accepted, and identical, when regenerated
    from its saved form (the C14 harness, run here for its reload clause)"""
    pid, name = "C11", "module_reload"

    def variants(self, tier):
        out = [{"k": 2}, {"k": 3}, {"k": 4, "cp_first": True}]
        if tier == "thorough":
            out.append({"k": 4})
        return out

    def post(self, var, v, out):
        if is_raised(out):
            return [("construction_never_fails", False)]
        return [("module_rebuilt_from_saved_form_is_identical", all(r == "same" for r in out["reload"]))]


HARNESSES = [RuleResults(), TTAReuse(), HmmerReuse(), ModuleReload()]


class SideloadReuse(Harness):
    """externally supplied (sideloaded) areas: annotations -> results -> JSON -> results -> JSON, and what each adds to a record"""
    pid, name = "C11", "sideloaded"
    SD = "antismash.detection.sideloader.data_structures:"
    functions = [SD + "SideloadedResults.to_json", SD + "SideloadedResults.from_json", SD + "SideloadedResults.add_to_record",
                 SD + "ProtoclusterAnnotation.from_json", SD + "ProtoclusterAnnotation.to_json", SD + "ProtoclusterAnnotation.to_secmet",
                 SD + "ProtoclusterAnnotation.build_location", SD + "ProtoclusterAnnotation.build_core_location",
                 SD + "SubRegionAnnotation.from_json", SD + "SubRegionAnnotation.to_json", SD + "SubRegionAnnotation.to_secmet",
                 SD + "SubRegionAnnotation.build_location"]
    bound = ("one protocluster annotation (core start / end, left and right neighbourhood) and one subregion annotation with symbolic "
             "coordinates on a linear or circular record of symbolic length (on a circular record areas may run through the origin); "
             "schema version symbolic")
    outside = "the JSON schema validation of the user's file (jsonschema); free-text details"
    stubs = []

    def variants(self, tier):
        return [{"circular": c} for c in (False, True)]

    def vars(self, var):
        return {"n": "int", "cs": "int", "ce": "int", "nl": "int", "nr": "int", "ss": "int", "se": "int", "schema": "int"}

    def pre(self, var, v):
        n = v["n"]
        c = [n >= 10, 0 <= v["cs"], v["cs"] < n, 0 < v["ce"], v["ce"] <= n, 0 <= v["nl"], 0 <= v["nr"], 0 <= v["ss"], v["ss"] < n,
             0 < v["se"], v["se"] <= n, 0 <= v["schema"], v["schema"] <= 2]
        if not var["circular"]:
            c += [v["cs"] < v["ce"], v["ss"] < v["se"], v["cs"] - v["nl"] >= 0, v["ce"] + v["nr"] <= n]
        else:
            # what a user may write for a ring: areas through the origin (start > end), neighbourhoods that do not meet themselves
            c += [v["cs"] != v["ce"], v["ss"] != v["se"],
                  v["nl"] + v["nr"] + L.If(v["cs"] < v["ce"], v["ce"] - v["cs"], n - v["cs"] + v["ce"]) < n]
        return L.And(c)

    def run(self, var, v):
        from antismash.detection.sideloader.data_structures import ProtoclusterAnnotation, SideloadedResults, SubRegionAnnotation, Tool
        n = v["n"]
        origin = n if var["circular"] else None
        tool = Tool("tool", "1.0", "a tool", {"param": ["x"]})
        proto = ProtoclusterAnnotation(v["cs"], v["ce"], "product", tool, {"score": ["5"]}, v["nl"], v["nr"], circular_origin=origin)
        sub = SubRegionAnnotation(v["ss"], v["se"], "label", tool, {"note": ["y"]}, circular_origin=origin)
        original = SideloadedResults("rec", [sub], [proto])
        saved = original.to_json()
        stored = tree_copy(saved)
        stored["schema_version"] = v["schema"]

        def added(results):
            rec = mkrecord(n, var["circular"])
            rec.id = "rec"
            results.add_to_record(rec)
            return {"protoclusters": [(canon_loc(p.location), canon_loc(p.core_location), p.product, p.tool, cn(p.neighbourhood_range))
                                      for p in rec.get_protoclusters()],
                    "subregions": [(canon_loc(s.location), s.label, s.tool, sorted(s.extra_qualifiers.items())) for s in rec.get_subregions()]}
        rec = mkrecord(n, var["circular"])
        rec.id = "rec"
        try:
            reloaded = SideloadedResults.from_json(stored, rec)
        except ValueError:
            return {"reused": False}
        return {"reused": True, "saved": saved, "again": reloaded.to_json(), "first": added(original), "second": added(reloaded),
                "areas": [(a.kind, cn(a.start), cn(a.end)) for a in original.get_areas()],
                "areas_again": [(a.kind, cn(a.start), cn(a.end)) for a in reloaded.get_areas()]}

    def post(self, var, v, out):
        if is_raised(out):
            return [("no_raise", False)]
        from antismash.detection.sideloader.data_structures import SideloadedResults
        current = v["schema"] == SideloadedResults.schema_version
        cl = [("other_schema_versions_are_refused", L.Iff(current, out["reused"]))]
        if out["reused"]:
            cl += [("saved_again_is_identical", tree_equal(out["saved"], out["again"])),
                   ("same_areas_added_to_the_record", tree_equal(out["first"], out["second"])),
                   ("same_area_order", tree_equal(out["areas"], out["areas_again"]))]
        return cl


HARNESSES = [RuleResults(), TTAReuse(), HmmerReuse(), ModuleReload(), SideloadReuse()]


def _floats_as_text(tree):
    """fixed floating point values are compared by their shortest text (what json.dumps writes)"""
    if isinstance(tree, dict):
        return {k: _floats_as_text(val) for k, val in tree.items()}
    if isinstance(tree, (list, tuple)):
        return [_floats_as_text(val) for val in tree]
    if type(tree) is float:
        return repr(tree)
    return tree


class _Translation(str):
    """a gene translation of symbolic length: slices of it (domain translations) are a fixed text (outside the claim)"""
    def __getitem__(self, _key):
        return "MAG"


class NrpsPksReuse(Harness):
    """NRPS/PKS domain results: generate_domains (hmmscan calls stubbed with symbolic hits) -> JSON -> from_json on a fresh copy of
    the record -> JSON, and the domains / motifs / modules / gene qualifiers each adds to its record"""
    pid, name = "C11", "nrps_pks_domains"
    DI = "antismash.detection.nrps_pks_domains.domain_identification:"
    functions = [DI + "generate_domains", DI + "NRPSPKSDomains.to_json", DI + "NRPSPKSDomains.from_json", DI + "NRPSPKSDomains.add_to_record",
                 DI + "CDSResult.to_json", DI + "CDSResult.from_json", DI + "CDSResult.annotate_domains",
                 DI + "generate_domain_features", DI + "generate_motif_features",
                 "antismash.detection.nrps_pks_domains.module_identification:build_modules_for_cds",
                 "antismash.detection.nrps_pks_domains.module_identification:combine_modules",
                 "antismash.detection.nrps_pks_domains.module_identification:Module.to_json",
                 "antismash.detection.nrps_pks_domains.module_identification:Module.from_json",
                 "antismash.common.secmet.features.feature:Feature.get_sub_location_from_protein_coordinates",
                 "antismash.common.secmet.record:Record.add_module", "antismash.common.secmet.record:Record.connect_locations"]
    bound = ("a region with one or two genes (same or opposite strands; symbolic locations, the first optionally of two exons) carrying "
             "fixed domain architectures (PKS KS-AT-ACP in one gene; KS-AT | ACP-KR split over two genes and merged; NRPS C-A-PCP-TE; a "
             "lone domain; two loader-only modules) at symbolic, ordered protein coordinates, plus a motif hit; schema version and record id of the saved results "
             "symbolic")
    outside = "hmmscan / hmmpfam2 runs (stubbed: they return the symbolic hits); KS subtype searches; domain translations; domain names"
    stubs = ["find_domains / find_subtypes / find_ab_motifs / get_fasta_from_features / get_database_path return the harness's hits (external HMMER calls and database files)",
             "gene translations are a carrier whose slices are a fixed text"]
    task_paths = 150
    ARCH = {"pks": [["PKS_KS", "PKS_AT", "ACP"]],
            "split": [["PKS_KS", "PKS_AT"], ["ACP", "PKS_KR"]],
            "nrps": [["Condensation_LCL", "AMP-binding", "PCP", "Thioesterase"]],
            "lone": [["PKS_KR"], ["PCP"]],
            "loaders": [["PKS_AT", "ACP", "PKS_AT", "ACP"]],
            "motifs": [[], ["PKS_KS", "PKS_AT", "ACP"]]}         # a gene with motif hits but no domain hits      # a loader-only module is complete only as the first of its gene

    def variants(self, tier):
        out = []
        for arch in ("pks", "split", "nrps", "lone", "loaders", "motifs"):
            for strands in ((1, 1), (-1, -1), (1, -1)):
                if len(self.ARCH[arch]) == 1 and strands[0] != strands[1]:
                    continue
                for shape in (("s",) if tier == "quick" else ("s", "j2")):
                    if tier == "quick" and arch in ("nrps", "lone", "loaders", "motifs") and strands != (1, 1):
                        continue
                    out.append({"arch": arch, "strands": list(strands), "shape": shape})
        return out

    def vars(self, var):
        d = {"n": "int", "schema": "int", "same_record": "bool"}
        for g, names in enumerate(self.ARCH[var["arch"]]):
            d.update(shape_vars("g%d" % g, var["shape"] if g == 0 else "s"))
            for i in range(len(names)):
                d["s%d%d" % (g, i)] = "int"
                d["e%d%d" % (g, i)] = "int"
        d["ms"] = "int"
        d["me"] = "int"
        return d

    def pre(self, var, v):
        n = v["n"]
        c = [0 <= v["schema"], v["schema"] <= 5]
        arch = self.ARCH[var["arch"]]
        for g, names in enumerate(arch):
            shape = var["shape"] if g == 0 else "s"
            parts = model_parts("g%d" % g, shape, v)
            total = L.Sum([p[1] - p[0] for p in parts])
            c.append(shape_pre("g%d" % g, shape, v, n))
            if shape == "j2":
                c.append(v["g0e0"] < v["g0s1"])
            # domains in order, inside the protein (3 bases per residue, a stop codon at the end)
            prev = 0
            for i in range(len(names)):
                c += [prev <= v["s%d%d" % (g, i)], v["s%d%d" % (g, i)] < v["e%d%d" % (g, i)]]
                prev = v["e%d%d" % (g, i)]
            c.append(3 * prev + 3 <= total)
        c += [0 <= v["ms"], v["ms"] < v["me"], 3 * v["me"] + 3 <= L.Sum([p[1] - p[0] for p in model_parts("g0", var["shape"], v)])]
        if len(arch) == 2:
            c.append(v["g0e%d" % (1 if var["shape"] == "j2" else 0)] <= v["g1s0"])
        return L.And(c)

    def make_record(self, var, v, rec_id):
        n = v["n"]
        rec = mkrecord(n, False)
        rec.id = rec_id
        for g in range(len(self.ARCH[var["arch"]])):
            shape = var["shape"] if g == 0 else "s"
            cds = DummyCDS(location=build("g%d" % g, shape, v, var["strands"][g]), locus_tag="gene%d" % g, translation="MAGIC")
            cds._translation = _Translation("MAGIC")
            rec.add_cds_feature(cds)
        from antismash.common.secmet.locations import FeatureLocation
        rec.add_protocluster(Protocluster(FeatureLocation(0, n, 1), FeatureLocation(0, n, 1), tool="test", product="T1PKS", cutoff=20,
                                          neighbourhood_range=0, detection_rule="rule"))
        rec.create_candidate_clusters()
        rec.create_regions()
        return rec

    def run(self, var, v):
        from antismash.common.hmmscan_refinement import HMMResult
        from antismash.detection.nrps_pks_domains import domain_identification as di
        from .c10 import internal
        hits, motifs = {}, {}
        for g, names in enumerate(self.ARCH[var["arch"]]):
            hits["gene%d" % g] = [HMMResult(name, v["s%d%d" % (g, i)], v["e%d%d" % (g, i)], 1e-20, 150.5) for i, name in enumerate(names)]
        motifs["gene0"] = [HMMResult("C1_dual", v["ms"], v["me"], 1e-05, 12.5)]
        saved_funcs = (di.get_fasta_from_features, di.find_domains, di.find_subtypes, di.find_ab_motifs, di.get_database_path)
        di.get_database_path = lambda subdir, filename: filename
        di.get_fasta_from_features = lambda features: ""
        di.find_domains = lambda fasta, record: {k: list(val) for k, val in hits.items()}
        di.find_subtypes = lambda *args, **kwargs: {}
        di.find_ab_motifs = lambda fasta: {k: list(val) for k, val in motifs.items()}
        try:
            rec1 = self.make_record(var, v, "rec")
            original = di.generate_domains(rec1)
        finally:
            di.get_fasta_from_features, di.find_domains, di.find_subtypes, di.find_ab_motifs, di.get_database_path = saved_funcs
        saved = original.to_json()
        stored = tree_copy(saved)
        stored["schema_version"] = v["schema"]
        rec2 = self.make_record(var, v, "rec" if v["same_record"] else "other")
        reloaded = di.NRPSPKSDomains.from_json(stored, rec2)
        if reloaded is None:
            return {"reused": False}
        again = reloaded.to_json()
        original.add_to_record(rec1)
        reloaded.add_to_record(rec2)
        return {"reused": True, "saved": _floats_as_text(saved), "again": _floats_as_text(again), "first": internal(rec1),
                "second": internal(rec2), "modules": len(rec1.get_modules())}

    def post(self, var, v, out):
        if is_raised(out):
            return [("no_raise", False)]
        from antismash.detection.nrps_pks_domains.domain_identification import NRPSPKSDomains
        usable = L.And(v["schema"] == NRPSPKSDomains.schema_version, v["same_record"])
        cl = [("other_schema_or_record_is_discarded", L.Iff(usable, out["reused"]))]
        if out["reused"]:
            from .c10 import same_summary
            first = {k: val for k, val in out["first"].items() if not k.startswith("area")}
            second = {k: val for k, val in out["second"].items() if not k.startswith("area")}
            cl += [("saved_again_is_identical", tree_equal(out["saved"], out["again"])),
                   ("same_features_and_gene_annotations_added", same_summary({"x": first}, {"x": second}))]
        return cl

    def klass(self, var, out):
        if is_raised(out):
            return "raised:" + out.etype
        return "reused:%s" % (out.get("modules") if out["reused"] else "no")

    def expected_classes(self, var):
        # vacuity: results are discarded on some paths and reused on others, with the module count the architecture implies
        return {"reused:no", "reused:%d" % {"pks": 1, "split": 1, "nrps": 1, "lone": 0, "loaders": 2, "motifs": 1}[var["arch"]]}


HARNESSES = [RuleResults(), TTAReuse(), HmmerReuse(), ModuleReload(), SideloadReuse(), NrpsPksReuse()]
