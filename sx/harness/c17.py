"""C17 - same input, same output: results do not depend on the process or hash seed.

Set iteration order is the only channel through which the hash seed / memory layout reaches these stages, so it is made an
explicit input: the `set` used by the stage iterates in an order chosen by symbolic variables (hbase.ASet)."""
import itertools
from collections import defaultdict

from antismash.common import hmmscan_refinement as hr
from antismash.common.hmm_rule_parser import cluster_prediction as cp
from antismash.common.secmet.features import CandidateCluster
from antismash.common.secmet.features.candidate_cluster import CandidateClusterKind
from antismash.common.secmet.features.protocluster import Protocluster
from antismash.common.secmet.features.region import structures as region_structures
from antismash.common.secmet.features.region.structures import Region
from antismash.common.secmet.qualifiers import SecMetQualifier
from antismash.common.secmet.test.helpers import DummyCDS

from .. import logic as L
from ..hbase import ASet
from .c03 import mkrule
from .c04 import build, shape_pre, shape_vars
from .c13 import LENGTHS, FakeHSP, FakeQueryResult
from .common import Harness, canon_loc, cn, is_raised, mkrecord

PICKS = 8

# the sets candidate formation builds from Protocluster objects hash by identity; pinned to the product name so that the
# exploration itself is reproducible (their order is varied by C05's renamed products, here by the ASet of the region)
Protocluster.__hash__ = lambda self: hash(self.product)


def T(x):
    return True if x else False


class Orders:
    """hands the order variables o0, o1, ... to the sets of one run; every pick is made concrete by forking"""
    def __init__(self, v):
        self.v, self.i = v, 0

    def __call__(self, n):
        if self.v is None or self.i >= PICKS:
            return 0
        var = self.v["o%d" % self.i]
        self.i += 1
        for k in range(n - 1):
            if T(var == k):
                return k
        return n - 1


def order_vars():
    return {"o%d" % i: "int" for i in range(PICKS)}


def order_pre(v):
    return L.And([L.And(0 <= v["o%d" % i], v["o%d" % i] <= 3) for i in range(PICKS)])


class StageOrder(Harness):
    pid = "C17"
    stubs = ["`set` inside the stage's module replaced by a set whose iteration order is chosen by symbolic variables (hbase.ASet); "
             "dict order and list order are deterministic in CPython and untouched"]

    def with_order(self, v, fn):
        """run fn twice: with the symbolic iteration order and with plain insertion order"""
        ASet.chooser = Orders(v)
        try:
            first = fn()
        finally:
            ASet.chooser = None
        second = fn()
        return first, second


class RefineOrder(StageOrder):
    name = "refine"
    functions = ["antismash.common.hmmscan_refinement:refine_hmmscan_results", "antismash.common.hmmscan_refinement:gather_by_query"]
    bound = "k <= 3 raw hits (quick: k = 3 only for the profile layout a,a,b) over 2 profiles with symbolic coordinates / scores / e-values (ties included); every iteration order of the hit set"
    outside = "k > 3"

    def variants(self, tier):
        out = []
        for k in (2, 3):
            for profs in itertools.product("ab", repeat=k):
                if profs == tuple(sorted(profs)):
                    for mode in (False, True):
                        if tier == "quick" and k == 3 and profs not in (("a", "a", "b"),):
                            continue
                        out.append({"profiles": list(profs), "neighbour_mode": mode})
        return out

    def vars(self, var):
        d = order_vars()
        for i in range(len(var["profiles"])):
            d.update({"s%d" % i: "int", "e%d" % i: "int", "sc%d" % i: "real", "ev%d" % i: "real"})
        return d

    def pre(self, var, v):
        c = [order_pre(v)]
        for i in range(len(var["profiles"])):
            c += [0 <= v["s%d" % i], v["s%d" % i] < v["e%d" % i], v["e%d" % i] <= 100000, v["sc%d" % i] >= 0, v["ev%d" % i] > 0]
        return L.And(c)

    def run(self, var, v):
        hr.set = ASet

        def go():
            hsps = [FakeHSP("cds", p, v["s%d" % i], v["e%d" % i], v["ev%d" % i], v["sc%d" % i]) for i, p in enumerate(var["profiles"])]
            res = hr.refine_hmmscan_results([FakeQueryResult(hsps)], LENGTHS, neighbour_mode=var["neighbour_mode"])
            return [(h.hit_id, cn(h.query_start), cn(h.query_end), h.bitscore, h.evalue) for h in res.get("cds", [])]
        a, b = self.with_order(v, go)
        return {"any_order": a, "insertion_order": b}

    def post(self, var, v, out):
        if is_raised(out):
            return [("no_raise", False)]
        a, b = out["any_order"], out["insertion_order"]
        return [("same_hits_kept_for_every_set_order", L.And(len(a) == len(b), [L.And(x[0] == y[0], x[1] == y[1], x[2] == y[2],
                                                                                  x[3] == y[3], x[4] == y[4]) for x, y in zip(a, b)]))]


class ProtoclusterOrder(StageOrder):
    name = "protoclusters_and_json"
    functions = ["antismash.common.hmm_rule_parser.cluster_prediction:find_protoclusters",
                 "antismash.common.hmm_rule_parser.cluster_prediction:CDSResults.to_json",
                 "antismash.common.secmet.features.region.structures:Region.get_unique_protoclusters"]
    bound = ("two rules anchored on the same G = 2 genes (incl. genes with equal coordinates on opposite strands), symbolic coordinates; "
             "the sets of anchoring gene names, the sets of definition domains and the region's set of protoclusters iterate in every order")
    outside = "G > 2; candidate formation (set displays cannot be intercepted without rewriting the source; see C05's renamed products)"

    def variants(self, tier):
        # twins: one rule, two separate chains whose neighbourhoods are both clipped to the whole (linear) record: two protoclusters
        # of one product with identical extents and different cores
        return [{"same_place": False}, {"same_place": True}, {"same_place": False, "twins": True}]

    def vars(self, var):
        d = order_vars()
        d["n"] = "int"
        d["cutoff"] = "int"
        d.update(shape_vars("g0", "s"))
        d.update(shape_vars("g1", "s"))
        return d

    def pre(self, var, v):
        n = v["n"]
        c = [order_pre(v), shape_pre("g0", "s", v, n), shape_pre("g1", "s", v, n), v["cutoff"] >= 1, v["cutoff"] <= n,
             v["g0s0"] <= v["g1s0"]]
        if var["same_place"]:
            c += [v["g0s0"] == v["g1s0"], v["g0e0"] == v["g1e0"]]
        else:
            c += [L.Or(v["g0s0"] != v["g1s0"], v["g0e0"] != v["g1e0"])]
        if var.get("twins"):
            c.append(v["g1s0"] - v["g0e0"] >= v["cutoff"])        # not chained
        return L.And(c)

    def run(self, var, v):
        region_structures.set = ASet

        def go():
            rec = mkrecord(v["n"], False)
            strands = (1, -1) if var["same_place"] else (1, 1)
            for i in range(2):
                rec.add_cds_feature(DummyCDS(location=build("g%d" % i, "s", v, strands[i]), locus_tag="g%d" % i, translation="A"))
            rules = {"r1": mkrule("r1", v["cutoff"], 0), "r2": mkrule("r2", v["cutoff"], 0)}
            doms = defaultdict(lambda: defaultdict(set))
            by_type = {"r1": ASet(["g0", "g1"]), "r2": ASet(["g1", "g0"])}
            if var.get("twins"):
                rules = {"r1": mkrule("r1", v["cutoff"], v["n"])}
                by_type = {"r1": ASet(["g1", "g0"])}
            protos = cp.find_protoclusters(rec, by_type, rules, {}, doms)
            for p in protos:
                rec.add_protocluster(p)
            found = [(p.product, canon_loc(p.core_location)) for p in rec.get_protoclusters()]
            rec.create_candidate_clusters()
            rec.create_regions()
            unique = [[(p.product, canon_loc(p.core_location)) for p in region.get_unique_protoclusters()] for region in rec.get_regions()]
            cds_res = cp.CDSResults(rec.get_cds_by_name("g0"), [SecMetQualifier.Domain("a", 1e-5, 50., 1, "tool")],
                                    {"r1": ASet(["x", "y", "z"]), "r2": ASet(["z", "x"])})
            return {"protoclusters": found, "unique": unique, "json": cds_res.to_json()["definition_domains"]}
        a, b = self.with_order(v, go)
        return {"any_order": a, "insertion_order": b}

    def post(self, var, v, out):
        if is_raised(out):
            return [("no_raise", False)]
        a, b = out["any_order"], out["insertion_order"]
        same_protos = L.And(len(a["protoclusters"]) == len(b["protoclusters"]),
                            [L.And(x[0] == y[0], len(x[1]) == len(y[1]), [L.And(p[0] == q[0], p[1] == q[1]) for p, q in zip(x[1], y[1])])
                             for x, y in zip(a["protoclusters"], b["protoclusters"])])
        return [("same_protoclusters_in_the_same_order", same_protos),
                ("same_protocluster_order_within_regions",
                 L.And(len(a["unique"]) == len(b["unique"]),
                       [L.And(len(r) == len(q), [L.And(x[0] == y[0], len(x[1]) == len(y[1]), [L.And(m[0] == k[0], m[1] == k[1]) for m, k in zip(x[1], y[1])])
                                                 for x, y in zip(r, q)]) for r, q in zip(a["unique"], b["unique"])])),
                ("same_json_for_every_set_order", a["json"] == b["json"])]


HARNESSES = [RefineOrder(), ProtoclusterOrder()]


# ------------------------------------------------------------------------------------------------
from antismash.common import hmmer as hm  # noqa: E402
from fractions import Fraction  # noqa: E402

from ..rewrite import set_displays_to_calls  # noqa: E402
from .c13 import CUTOFFS, FakeProfileHSP, _Len  # noqa: E402

set_displays_to_calls(hm.remove_overlapping)
set_displays_to_calls(cp.filter_result_multiple)
set_displays_to_calls(cp.filter_results)


class HmmerOrder(StageOrder):
    name = "hmmer_overlap"
    functions = ["antismash.common.hmmer:remove_overlapping"]
    bound = "k = 2 hits of different profiles and k = 3 hits with symbolic coordinates and scores (full ties included); every iteration order of the overlap groups"
    outside = "k > 3"
    exact_reals = True
    stubs = StageOrder.stubs + ["set displays inside remove_overlapping routed through the name `set` by a fixed AST rewrite (sx/rewrite.py)"]

    def variants(self, tier):
        return [{"profiles": ["p", "q"]}, {"profiles": ["p", "p", "q"]}]

    def vars(self, var):
        d = order_vars()
        d["limit"] = "int"
        for i in range(len(var["profiles"])):
            d.update({"s%d" % i: "int", "e%d" % i: "int", "sc%d" % i: "real"})
        return d

    def pre(self, var, v):
        k = len(var["profiles"])
        c = [order_pre(v), 1 <= v["limit"], v["limit"] <= 50]
        for i in range(k):
            c += [0 <= v["s%d" % i], v["s%d" % i] < v["e%d" % i], v["e%d" % i] <= 5000, v["sc%d" % i] > 0, v["sc%d" % i] <= 1]
        for i in range(k):
            for j in range(i + 1, k):
                if var["profiles"][i] == var["profiles"][j]:
                    c.append(L.Not(L.And(v["s%d" % i] == v["s%d" % j], v["e%d" % i] == v["e%d" % j], v["sc%d" % i] == v["sc%d" % j])))
        return L.And(c)

    def run(self, var, v):
        hm.set = ASet
        k = len(var["profiles"])
        if L.issym(v["limit"]):
            from .. import core
            scores = [core.SymRecip(v["sc%d" % i]) for i in range(k)]
        else:
            scores = [1 / Fraction(v["sc%d" % i]) for i in range(k)]

        def go():
            hits = [hm.HmmerHit("loc", "lbl", "cds", "dom", 1e-5, scores[i], var["profiles"][i], "desc",
                                v["s%d" % i], v["e%d" % i], _Len(v["e%d" % i] - v["s%d" % i])) for i in range(k)]
            res = hm.remove_overlapping(hits, CUTOFFS, overlap_limit=v["limit"])
            return [[j for j in range(k) if hits[j] is h][0] for h in res]
        a, b = self.with_order(v, go)
        return {"any_order": a, "insertion_order": b}

    def post(self, var, v, out):
        if is_raised(out):
            return [("no_raise", False)]
        return [("same_hits_kept_for_every_set_order", out["any_order"] == out["insertion_order"])]


class FilterMultipleOrder(StageOrder):
    name = "filter_multiple"
    functions = ["antismash.common.hmm_rule_parser.cluster_prediction:filter_result_multiple",
                 "antismash.common.hmm_rule_parser.cluster_prediction:filter_results"]
    bound = "k = 3 hits on one gene over profiles p, q (one equivalence group) and r, symbolic coordinates and scores (ties included); every set iteration order"
    outside = "k > 3"
    stubs = StageOrder.stubs + ["set displays inside filter_results / filter_result_multiple routed through `set` by the fixed AST rewrite"]

    def variants(self, tier):
        return [{"profiles": list(p)} for p in (("p", "q", "r"), ("p", "p", "q"), ("p", "r", "r"))]

    def vars(self, var):
        d = order_vars()
        for i in range(3):
            d.update({"s%d" % i: "int", "e%d" % i: "int", "sc%d" % i: "real"})
        return d

    def pre(self, var, v):
        c = [order_pre(v)]
        for i in range(3):
            c += [0 <= v["s%d" % i], v["s%d" % i] < v["e%d" % i], v["sc%d" % i] > 0]
        return L.And(c)

    def run(self, var, v):
        cp.set = ASet

        def go():
            hits = [FakeProfileHSP(i, var["profiles"][i], v["s%d" % i], v["e%d" % i], v["sc%d" % i]) for i in range(3)]
            results = list(hits)
            by_id = {"cds": list(hits)}
            results, by_id = cp.filter_results(results, by_id, [{"p", "q"}])
            results, by_id = cp.filter_result_multiple(results, by_id)
            return [[hits.index(h) for h in by_id["cds"]], [hits.index(h) for h in results]]
        try:
            a, b = self.with_order(v, go)
        finally:
            del cp.set
        return {"any_order": a, "insertion_order": b}

    def post(self, var, v, out):
        if is_raised(out):
            return [("no_raise", False)]
        distinct = L.And([v["sc%d" % i] != v["sc%d" % j] for i in range(3) for j in range(i + 1, 3)])
        return [("same_hits_in_the_same_order_for_every_set_order", L.Implies(distinct, out["any_order"] == out["insertion_order"])),
                ("same_order_of_kept_hits_even_with_score_ties",
                 sorted(out["any_order"][0]) != sorted(out["insertion_order"][0]) or out["any_order"] == out["insertion_order"])]


HARNESSES = [RefineOrder(), ProtoclusterOrder(), HmmerOrder(), FilterMultipleOrder()]
