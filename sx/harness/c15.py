"""C15 - ORF scanning finds exactly the open reading frames of the searched sequence."""
import itertools

from antismash.common import all_orfs as ao
from antismash.common.secmet.test.helpers import DummyCDS

from .. import logic as L
from .c04 import build, model_parts, shape_pre, shape_vars
from .c08 import gene_order_pre
from .common import Harness, canon_loc, cn, in_parts, is_raised, parts_len, wf_parts

AO = "antismash.common.all_orfs:"
ALPHABET = ["A", "C", "G", "T", "N", "a", "t", "g"]
STARTS, STOPS = ("ATG", "GTG", "TTG"), ("TAA", "TAG", "TGA")


def codon_is(v, i, codons):
    """the window's codon at i is one of `codons` (case-insensitive), as a formula over the character indices"""
    opts = []
    for codon in codons:
        opts.append(L.And([L.Or([v["b%d" % (i + k)] == idx for idx, ch in enumerate(ALPHABET) if ch.upper() == codon[k]])
                           for k in range(3)]))
    return L.Or(opts)


class ScanOrfs(Harness):
    pid, name = "C15", "scan_orfs"
    functions = [AO + "scan_orfs"]
    bound = ("window of concrete length <= 10 (quick) / 12 (thorough) whose bases are symbolic over {A,C,G,T,N,a,t,g}; direction both; "
             "offset in [-n, n), record length n > window length and minimum_length symbolic")
    outside = "windows longer than 12 bases; find_all_orfs glue (slicing a real Seq) and translation text"
    task_paths = 250

    def variants(self, tier):
        lens = [3, 6, 7, 9, 10] if tier == "quick" else [3, 6, 8, 9, 10, 12]
        return [{"len": ln, "direction": d} for ln in lens for d in (1, -1)]

    def vars(self, var):
        d = {"off": "int", "n": "int", "minlen": "int", "x": "int", "t": "int"}
        for i in range(var["len"]):
            d["b%d" % i] = "int"
        return d

    def pre(self, var, v):
        n = v["n"]
        return L.And([L.And(0 <= v["b%d" % i], v["b%d" % i] < len(ALPHABET)) for i in range(var["len"])],
                     n > var["len"], -n <= v["off"], v["off"] < n, 0 <= v["minlen"], v["minlen"] <= 30,
                     0 <= v["x"], v["x"] < n, 0 <= v["t"])

    def run(self, var, v):
        if L.issym(v["n"]):
            from ..core import SymName, SymSeq
            seq = SymSeq([SymName(v["b%d" % i], ALPHABET) for i in range(var["len"])])
        else:
            seq = "".join(ALPHABET[v["b%d" % i]] for i in range(var["len"]))
        locs = ao.scan_orfs(seq, var["direction"], offset=v["off"], minimum_length=v["minlen"], record_length=v["n"])
        return [canon_loc(loc) for loc in locs]

    def post(self, var, v, out):
        if is_raised(out):
            return [("no_raise", False)]
        ln, d, n, off, x, t = var["len"], var["direction"], v["n"], v["off"], v["x"], v["t"]

        def image(p):
            """record position of window position p"""
            raw = (p + off) if d == 1 else (off + ln - 1 - p)
            return (raw + n) % n
        # reference scanner: expected ORFs as (start, stop) window positions with a symbolic 'is an ORF' condition
        expected = []
        for f in range(3):
            idxs = list(range(f, ln - 2, 3))
            for a, s in enumerate(idxs):
                for j in idxs[a + 1:]:
                    between = [i for i in idxs if s < i < j]
                    before = idxs[:a]
                    # s is the first start codon after the previous stop: no start between the previous stop (or frame begin) and s
                    no_earlier_open = L.And([L.Implies(codon_is(v, b, STARTS),
                                                       L.Or([codon_is(v, c, STOPS) for c in before if c > b] or [False]))
                                             for b in before])
                    cond = L.And(codon_is(v, s, STARTS), L.Not(codon_is(v, s, STOPS)) if False else True,
                                 codon_is(v, j, STOPS), [L.Not(codon_is(v, i, STOPS)) for i in between], no_earlier_open,
                                 # "at least the minimum length" is measured from the first base of the start codon to the
                                 # last base of the stop codon (last - first >= minimum), which is what the repository's own
                                 # test_no_hits pins: a 60 nt ORF is not reported with minimum_length=60
                                 (j + 2 - s) >= v["minlen"])
                    expected.append((s, j, cond))
        cl = []
        # every reported location is one of the expected ORFs and covers exactly its bases, in reading order
        matched_any = []
        for loc in out:
            cl.append(("reported_location_well_formed", L.And(wf_parts(loc, n), len(loc) <= 2, all(p[2] == d for p in loc))))
            opts = []
            total = parts_len(loc)
            # position reached after t bases when extracting the location on its strand
            pos, consumed = None, 0
            for part in loc:
                plen = part[1] - part[0]
                here = (part[0] + (t - consumed)) if d == 1 else (part[1] - 1 - (t - consumed))
                pos = here if pos is None else L.If(t < consumed, pos, here)
                consumed = consumed + plen
            for s, j, cond in expected:
                covers = L.Implies(t < (j + 3 - s), pos == image(s + t))
                opts.append(L.And(cond, total == j + 3 - s, covers))
            cl.append(("reported_orf_is_a_real_orf_and_extracts_to_it", L.Or(opts) if opts else False))
        # every expected ORF is reported (some reported location starts at its first base)
        for s, j, cond in expected:
            first = image(s)
            hit = L.Or([((loc[0][0] == first) if d == 1 else (loc[0][1] - 1 == first)) for loc in out] or [False])
            cl.append(("every_orf_is_reported", L.Implies(cond, hit)))
        cl.append(("no_duplicates", len(out) <= len(expected) or not out))
        return cl


class Intergenic(Harness):
    pid, name = "C15", "intergenic"
    functions = [AO + "find_intergenic_areas"]
    bound = "G <= 3 genes in start order (nesting and overlap allowed), symbolic coordinates, padding and minimum length; search range symbolic"
    outside = "G > 3; the cross-origin stitching of _find_cross_origin_intergenic"

    def variants(self, tier):
        return [{"g": g} for g in range(0, 4)]

    def vars(self, var):
        d = {"lo": "int", "hi": "int", "pad": "int", "minlen": "int", "x": "int"}
        for i in range(var["g"]):
            d.update(shape_vars("g%d" % i, "s"))
        return d

    def pre(self, var, v):
        g = var["g"]
        return L.And([shape_pre("g%d" % i, "s", v, None) for i in range(g)], gene_order_pre(["s"] * g, v),
                     0 <= v["lo"], v["lo"] < v["hi"], 0 <= v["pad"], v["pad"] <= 50, 0 <= v["minlen"],
                     [L.And(v["lo"] <= v["g%ds0" % i], v["g%de0" % i] <= v["hi"], v["g%de0" % i] - v["g%ds0" % i] > 2 * v["pad"])
                      for i in range(g)])

    def run(self, var, v):
        genes = [DummyCDS(location=build("g%d" % i, "s", v), locus_tag="g%d" % i, translation="A") for i in range(var["g"])]
        areas = ao.find_intergenic_areas(v["lo"], v["hi"], genes, min_length=v["minlen"], padding=v["pad"])
        return [(cn(a), cn(b)) for a, b in areas]

    def post(self, var, v, out):
        if is_raised(out):
            return [("no_raise", False)]
        g, pad, x = var["g"], v["pad"], v["x"]
        cl = []
        for a, b in out:
            cl.append(("area_in_range_and_long_enough", L.And(v["lo"] <= a, a < b, b <= v["hi"], b - a >= v["minlen"])))
            for i in range(g):
                s, e = v["g%ds0" % i], v["g%de0" % i]
                # an area may overlap a gene by at most the padding on either side
                cl.append(("area_only_in_gaps_up_to_allowed_overlap", L.Or(b <= s + pad, a >= e - pad)))
        for (a, b), (c, d) in zip(out, out[1:]):
            cl.append(("areas_ordered_and_disjoint", b <= c))
        # completeness: a position outside every gene (shrunk by the padding) in a gap of sufficient length is in some area
        free = L.And(v["lo"] <= x, x < v["hi"], [L.Or(x < v["g%ds0" % i] + pad, x >= v["g%de0" % i] - pad) for i in range(g)])
        # the gap around x: from the nearest shrunk gene end at or before x to the nearest shrunk gene start after x
        left = L.Max([v["lo"]] + [L.If(v["g%de0" % i] - pad <= x, v["g%de0" % i] - pad, v["lo"]) for i in range(g)])
        right = L.Min([v["hi"]] + [L.If(v["g%ds0" % i] + pad > x, v["g%ds0" % i] + pad, v["hi"]) for i in range(g)])
        inside = L.Or([L.And(a <= x, x < b) for a, b in out] or [False])
        cl.append(("every_long_enough_gap_is_reported", L.Implies(L.And(free, right - left >= v["minlen"]), inside)))
        return cl


class CrossOriginIntergenic(Harness):
    """the gaps searched inside an area that spans the origin, with the piece before and the piece after the origin stitched"""
    pid, name = "C15", "cross_origin_intergenic"
    functions = [AO + "_find_cross_origin_intergenic", AO + "find_intergenic_areas",
                 "antismash.common.secmet.record:Record.get_cds_features_within_location"]
    bound = ("an origin-spanning area on a circular record with G <= 2 genes (simple ones anywhere on the record, or one gene through "
             "the origin plus a simple one), symbolic coordinates, record length, allowed overlap and minimum length >= 1")
    outside = "G > 2; minimum length 0 (empty pieces are then reported); completeness of the search"
    task_paths = 200

    def variants(self, tier):
        return [{"genes": g} for g in ([], ["s"], ["s", "s"], ["o"], ["s", "o"])]

    def vars(self, var):
        d = {"n": "int", "pad": "int", "minlen": "int", "x": "int"}
        d.update(shape_vars("a", "o"))
        for i, sh in enumerate(var["genes"]):
            d.update(shape_vars("g%d" % i, sh))
        return d

    def pre(self, var, v):
        n = v["n"]
        c = [shape_pre("a", "o", v, n), 0 <= v["pad"], v["pad"] <= 50, 1 <= v["minlen"], 0 <= v["x"], v["x"] < n]
        simple = [i for i, sh in enumerate(var["genes"]) if sh == "s"]
        for i, sh in enumerate(var["genes"]):
            c.append(shape_pre("g%d" % i, sh, v, n))
            parts = model_parts("g%d" % i, sh, v)
            c.append(parts_len(parts) > 2 * v["pad"] + 3)
            if sh == "o":
                c += [p[1] - p[0] > v["pad"] for p in parts]
        for i, j in zip(simple, simple[1:]):
            c.append(v["g%ds0" % i] <= v["g%ds0" % j])
            c.append(L.Or(v["g%ds0" % i] != v["g%ds0" % j], v["g%de0" % i] != v["g%de0" % j]))     # two genes, two locations
        return L.And(c)

    def run(self, var, v):
        from antismash.common.secmet.features import SubRegion
        from .common import mkrecord
        n = v["n"]
        rec = mkrecord(n, True)
        for i, sh in enumerate(var["genes"]):
            rec.add_cds_feature(DummyCDS(location=build("g%d" % i, sh, v), locus_tag="g%d" % i, translation="A"))
        area = SubRegion(build("a", "o", v), tool="test")
        areas = ao._find_cross_origin_intergenic(area, rec.get_cds_features(), rec, v["minlen"], v["pad"])
        return [(cn(a), cn(b)) for a, b in areas]

    def post(self, var, v, out):
        if is_raised(out):
            return [("no_raise", False)]
        n, pad, x = v["n"], v["pad"], v["x"]
        area = model_parts("a", "o", v)
        cl = []
        for a, b in out:
            # a piece starting before 0 stands for [a + n, n) followed by [0, b)
            covered = L.Or(L.And(a <= x, x < b), L.And(a < 0, a + n <= x))
            cl.append(("piece_well_formed_and_long_enough", L.And(a < b, b <= n, -n < a, b - a >= v["minlen"])))
            cl.append(("piece_inside_the_area", L.Implies(covered, in_parts(x, area))))
            for i, sh in enumerate(var["genes"]):
                deep = []
                for idx, (s_, e_) in enumerate(model_parts("g%d" % i, sh, v)):
                    lo = s_ if (sh == "o" and idx == 1) else s_ + pad          # the cut at the origin is not an end of the gene
                    hi = e_ if (sh == "o" and idx == 0) else e_ - pad
                    deep.append(L.And(lo <= x, x < hi))
                cl.append(("piece_only_in_gaps_up_to_allowed_overlap", L.Implies(covered, L.Not(L.Or(deep)))))
        return cl

    def klass(self, var, out):
        if is_raised(out):
            return "raised:" + out.etype
        return "pieces:%d" % min(len(out), 2)

    def expected_classes(self, var):
        return {"pieces:1"} if not var["genes"] else {"pieces:0", "pieces:1"}


class AreaSearch(Harness):
    """find_all_orfs restricted to an area that does not span the origin: which stretches of the area are searched at all"""
    pid, name = "C15", "area_search"
    functions = [AO + "find_all_orfs", AO + "find_intergenic_areas",
                 "antismash.common.secmet.record:Record.get_cds_features_within_location"]
    bound = ("a simple area on a linear or circular record with G <= 2 genes anywhere on the record (inside the area, straddling its "
             "start or end, covering it, outside), symbolic coordinates, allowed overlap and minimum length >= 1")
    outside = "G > 2; the sequence itself (the stretches handed to scan_orfs are observed, scanning is the scan_orfs harness)"
    stubs = ["scan_orfs is replaced by a recorder inside find_all_orfs (its own harness checks it); the record's sequence is a length carrier"]
    task_paths = 200

    def variants(self, tier):
        return [{"g": g, "circ": circ} for g in (1, 2) for circ in (False, True)]

    def vars(self, var):
        d = {"n": "int", "pad": "int", "minlen": "int", "x": "int"}
        d.update(shape_vars("a", "s"))
        for i in range(var["g"]):
            d.update(shape_vars("g%d" % i, "s"))
        return d

    def pre(self, var, v):
        n = v["n"]
        c = [shape_pre("a", "s", v, n), 0 <= v["pad"], v["pad"] <= 50, 1 <= v["minlen"], 0 <= v["x"], v["x"] < n]
        for i in range(var["g"]):
            c += [shape_pre("g%d" % i, "s", v, n), v["g%de0" % i] - v["g%ds0" % i] > 2 * v["pad"] + 3]
        if var["g"] == 2:
            c += [v["g0s0"] <= v["g1s0"], L.Or(v["g0s0"] != v["g1s0"], v["g0e0"] != v["g1e0"])]
        return L.And(c)

    def run(self, var, v):
        from antismash.common.secmet.features import SubRegion
        from .common import mkrecord
        rec = mkrecord(v["n"], var["circ"])
        for i in range(var["g"]):
            rec.add_cds_feature(DummyCDS(location=build("g%d" % i, "s", v), locus_tag="g%d" % i, translation="A"))
        area = SubRegion(build("a", "s", v), tool="test")
        searched = []
        real_gaps, real_scan = ao.find_intergenic_areas, ao.scan_orfs

        def gaps(*args, **kwargs):
            found = real_gaps(*args, **kwargs)
            searched.extend(found)
            return found
        ao.find_intergenic_areas = gaps
        ao.scan_orfs = lambda *args, **kwargs: []
        try:
            ao.find_all_orfs(rec, area, min_length=v["minlen"], max_overlap=v["pad"])
        finally:
            ao.find_intergenic_areas, ao.scan_orfs = real_gaps, real_scan
        return [(cn(a), cn(b)) for a, b in searched]

    def post(self, var, v, out):
        if is_raised(out):
            return [("no_raise", False)]
        pad, x = v["pad"], v["x"]
        cl = []
        for a, b in out:
            cl.append(("searched_stretch_inside_the_area", L.And(v["as0"] <= a, a < b, b <= v["ae0"])))
            for i in range(var["g"]):
                s_, e_ = v["g%ds0" % i], v["g%de0" % i]
                cl.append(("searched_stretch_only_in_gaps_up_to_allowed_overlap", L.Or(b <= s_ + pad, a >= e_ - pad)))
        return cl

    def klass(self, var, out):
        if is_raised(out):
            return "raised:" + out.etype
        return "stretches:%d" % min(len(out), 2)

    def expected_classes(self, var):
        return {"stretches:0", "stretches:1", "stretches:2"}


HARNESSES = [ScanOrfs(), Intergenic(), CrossOriginIntergenic(), AreaSearch()]
