"""Input builders shared by harnesses. Works with symbolic or concrete numbers; imports no z3."""
from Bio.Seq import Seq

from antismash.common.secmet import Record
from antismash.common.secmet.locations import CompoundLocation, FeatureLocation

from .. import logic as L
from ..hbase import cn, canon_loc, in_parts, parts_len, is_raised, Raised, Harness  # noqa: F401


class LenSeq(Seq):
    """a Seq that only carries a (possibly symbolic) length; no antiSMASH logic lives in Seq"""
    def __init__(self, n):
        Seq.__init__(self, "")
        self._n = n

    def __len__(self):
        return self._n

    def __bool__(self):
        return True

    def __getitem__(self, index):
        # sequence content is never the subject where LenSeq is used
        return Seq("")


def mkrecord(n, circular, seq=None):
    rec = Record(Seq(""))
    rec._record._seq = LenSeq(n) if seq is None else seq
    if circular:
        rec.add_annotation("topology", "circular")
    return rec


def mkloc(parts, strand=1):
    """parts: [(s, e), ...] in biological order"""
    locs = [FeatureLocation(s, e, strand) for s, e in parts]
    if len(locs) == 1:
        return locs[0]
    return CompoundLocation(locs)


def wf_parts(parts, n=None):
    """well-formed: non-empty, inside [0, n], pairwise disjoint"""
    cs = []
    for s, e, *_ in parts:
        cs.append(0 <= s)
        cs.append(s < e)
        if n is not None:
            cs.append(e <= n)
    for i in range(len(parts)):
        for j in range(i + 1, len(parts)):
            cs.append(L.Or(parts[i][1] <= parts[j][0], parts[j][1] <= parts[i][0]))
    return L.And(cs)


def wf_span(parts, n=None):
    """span: one part, or two parts where the first ends at the record end and the second starts at the origin"""
    if len(parts) == 1:
        return wf_parts(parts, n)
    if len(parts) != 2:
        return False
    c = [wf_parts(parts, n), parts[1][0] == 0]
    if n is not None:
        c.append(parts[0][1] == n)
    return L.And(c)


def overlap_parts(a, b):
    """two canonical part lists share a base"""
    return L.Or([L.And(L.Max(p[0], q[0]) < L.Min(p[1], q[1])) for p in a for q in b])


def contains_parts(outer, inner):
    """each part of inner lies inside one part of outer"""
    return L.And([L.Or([L.And(o[0] <= i[0], i[1] <= o[1]) for o in outer]) for i in inner])


def simple_pre(s, e, n=None):
    c = [0 <= s, s < e]
    if n is not None:
        c.append(e <= n)
    return L.And(c)
