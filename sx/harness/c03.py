"""C03 - protoclusters are the maximal cutoff-chains of a rule's anchoring genes."""
from collections import defaultdict

from antismash.common.hmm_rule_parser import cluster_prediction as cp
from antismash.common.hmm_rule_parser import rule_parser as rp
from antismash.common.secmet.test.helpers import DummyCDS

from .. import logic as L
from .c04 import build, covering_arcs, model_parts, ring_distance_spec, shape_pre, shape_vars
from .c08 import gene_order_pre
from .common import (Harness, canon_loc, cn, contains_parts, in_parts, is_raised, mkrecord, overlap_parts,
                     parts_len, wf_span)

CP = "antismash.common.hmm_rule_parser.cluster_prediction:"
RPM = "antismash.common.hmm_rule_parser.rule_parser:"


def mkrule(name, cutoff, neighbourhood, superiors=None, profile="a", extenders=None):
    return rp.DetectionRule(name, "cat", cutoff, neighbourhood, rp.SingleCondition(False, profile),
                            superiors=superiors or [], extenders=extenders)


class Chains(Harness):
    pid, name = "C03", "chains"
    functions = [CP + "find_protoclusters", CP + "_extend_area_location", CP + "merge_over_origin",
                 CP + "remove_redundant_protoclusters", CP + "apply_extenders",
                 "antismash.common.secmet.record:Record.extend_location",
                 "antismash.common.secmet.record:Record.connect_locations",
                 "antismash.common.secmet.features.protocluster:Protocluster.__init__"]
    bound = "one rule, G <= 3 (quick; three genes on a ring are mutually disjoint and the neighbourhood is 0 in the quick tier) / 4 (thorough) anchoring genes with symbolic coordinates (optionally one origin-spanning gene), symbolic cutoff in [1, 3n], neighbourhood in [0, 3n] and record length n; linear and circular"
    outside = "G > 4; multi-exon anchoring genes; on a ring the grouping clauses are claimed while every chain group fits in an arc shorter than half the record (the C04/C07 wording), and the exact-extent clause while core + 2*neighbourhood < record length"
    task_paths = 120

    def variants(self, tier):
        out = []
        gmax = 3 if tier == "quick" else 4
        for g in range(1, gmax + 1):
            out.append({"genes": ["s"] * g, "circ": False})
            # (four genes on a ring: disjoint, neighbourhood 0 - as three genes are in the quick tier)
            out.append({"genes": ["s"] * g, "circ": True, "disjoint": (tier == "quick" and g == 3) or g == 4})
            if g <= (2 if tier == "quick" else gmax - 1):
                out.append({"genes": ["s"] * (g - 1) + ["o"], "circ": True})
        if tier == "quick":
            # two chains of simple genes and a gene through the origin (the simple genes disjoint, no neighbourhood)
            out.append({"genes": ["s", "s", "o"], "circ": True, "disjoint": True})
        return out

    def vars(self, var):
        d = {"n": "int", "x": "int", "cutoff": "int", "nb": "int"}
        for i, sh in enumerate(var["genes"]):
            d.update(shape_vars("g%d" % i, sh))
        return d

    def pre(self, var, v):
        n = v["n"]
        extra = []
        if var.get("disjoint"):
            # the genes on a ring do not overlap each other, no neighbourhood (three genes: quick only, thorough lifts this; four: always)
            simple = [i for i, sh in enumerate(var["genes"]) if sh == "s"]
            extra = [v["g%de0" % i] <= v["g%ds0" % j] for i, j in zip(simple, simple[1:])] + [v["nb"] == 0]
        return L.And([shape_pre("g%d" % i, sh, v, n) for i, sh in enumerate(var["genes"])], extra,
                     gene_order_pre(var["genes"], v), 0 <= v["x"], v["x"] < n, v["cutoff"] >= 1, v["nb"] >= 0,
                     v["cutoff"] <= 3 * n, v["nb"] <= 3 * n)

    def run(self, var, v):
        rec = mkrecord(v["n"], var["circ"])
        names = []
        for i, sh in enumerate(var["genes"]):
            g = DummyCDS(location=build("g%d" % i, sh, v), locus_tag="g%d" % i, translation="A")
            rec.add_cds_feature(g)
            names.append("g%d" % i)
        rule = mkrule("r1", v["cutoff"], v["nb"])
        doms = defaultdict(lambda: defaultdict(set))
        protos = cp.find_protoclusters(rec, {"r1": set(names)}, {"r1": rule}, {}, doms)
        return [{"core": canon_loc(p.core_location), "extent": canon_loc(p.location), "product": p.product,
                 "cutoff": cn(p.cutoff), "nb": cn(p.neighbourhood_range)} for p in protos]

    def post(self, var, v, out):
        if is_raised(out):
            return [("no_raise", False)]
        n, x, cutoff, nb = v["n"], v["x"], v["cutoff"], v["nb"]
        circ = var["circ"]
        k = len(var["genes"])
        genes = [model_parts("g%d" % i, sh, v) for i, sh in enumerate(var["genes"])]
        rel = [[(ring_distance_spec(genes[i], genes[j], n if circ else None) < cutoff) if i != j else True
                for j in range(k)] for i in range(k)]
        reach = L.closure(k, rel)
        cl = []
        incore = [[contains_parts(p["core"], genes[i]) for i in range(k)] for p in out]
        # On a ring, spans are only defined to be the shortest arc while that arc is shorter than half the
        # record (C04 / C07 wording); the grouping clauses are claimed under that documented condition:
        # every chain group (by the specification) fits in an arc shorter than half the record.
        guard = True
        if circ:
            per_gene = []
            starts = [part[0] for i in range(k) for part in genes[i]]
            ends = [part[1] for i in range(k) for part in genes[i]]
            for i in range(k):
                opts = []
                for a in starts:
                    for b in ends:
                        opts.append(L.And(a < b, 2 * (b - a) < n,
                                          [L.Implies(reach[i][j], L.And(a <= part[0], part[1] <= b))
                                           for j in range(k) for part in genes[j]]))
                        opts.append(L.And(b <= a, 2 * (n - a + b) < n,
                                          [L.Implies(reach[i][j], L.Or(part[0] >= a, part[1] <= b))
                                           for j in range(k) for part in genes[j]]))
                per_gene.append(L.Or(opts))
            guard = L.And(per_gene)
        for i in range(k):
            cl.append(("every_anchor_in_exactly_one_core",
                       L.Implies(guard, L.ExactlyOne([incore[pi][i] for pi in range(len(out))]))))
        for i in range(k):
            for j in range(i + 1, k):
                together = L.Or([L.And(incore[pi][i], incore[pi][j]) for pi in range(len(out))])
                cl.append(("same_protocluster_iff_chain_below_cutoff", L.Implies(guard, L.Iff(together, reach[i][j]))))
        for pi, p in enumerate(out):
            core, ext = p["core"], p["extent"]
            cl.append(("no_protocluster_without_anchor", L.Or(incore[pi])))
            cl.append(("core_well_formed", wf_span(core, n)))
            cl.append(("extent_well_formed", wf_span(ext, n)))
            cl.append(("rule_parameters_kept", L.And(p["cutoff"] == cutoff, p["nb"] == nb, p["product"] == "r1")))
            members = [[g for g in genes[i]] for i in range(k)]
            # the core is the smallest span covering its group
            union = L.Or([L.And(incore[pi][i], in_parts(x, genes[i])) for i in range(k)])
            cl.append(("core_covers_group", L.Implies(union, in_parts(x, core))))
            length = parts_len(core)
            if not circ:
                lo = L.Min([L.If(incore[pi][i], genes[i][0][0], n) for i in range(k)])
                hi = L.Max([L.If(incore[pi][i], genes[i][-1][1], 0) for i in range(k)])
                cl.append(("core_is_exact_hull", L.And(len(core) == 1, core[0][0] == lo, core[0][1] == hi)))
                within = L.And(core[0][0] - nb <= x, x < core[0][1] + nb)
                cl.append(("extent_is_core_plus_neighbourhood_clipped", L.Iff(in_parts(x, ext), within)))
            else:
                # C04 reading of "smallest span": never longer than the linear hull; the shortest covering
                # arc whenever one shorter than half the record exists
                minimal = []
                starts = [(incore[pi][i], part[0]) for i in range(k) for part in genes[i]]
                ends = [(incore[pi][i], part[1]) for i in range(k) for part in genes[i]]
                for ina, a in starts:
                    for inb, b in ends:
                        plain = L.And(ina, inb, a < b, [L.Implies(incore[pi][i], L.And(a <= part[0], part[1] <= b))
                                                        for i in range(k) for part in genes[i]])
                        minimal.append(L.Implies(plain, length <= b - a))
                        wrap = L.And(ina, inb, b <= a, [L.Implies(incore[pi][i], L.Or(part[0] >= a, part[1] <= b))
                                                        for i in range(k) for part in genes[i]])
                        # (with three or more members the chain is connected member by member; an arc chosen early can close the
                        # ring once a long member arrives, so beyond half the record nothing is claimed - as in C04 / C07)
                        minimal.append(L.Implies(L.And(wrap, 2 * (n - a + b) < n), length <= n - a + b))
                cl.append(("core_is_smallest_covering_span", L.And(minimal)))
                within = L.Or([L.Or(L.And(s - nb <= y, y < e + nb) for y in (x, x - n, x + n)) for s, e, *_ in core])
                cl.append(("extent_is_core_plus_neighbourhood_wrapped",
                           L.Implies(length + 2 * nb < n, L.Iff(in_parts(x, ext), within))))
                cl.append(("extent_covers_core", L.Implies(in_parts(x, core), in_parts(x, ext))))
        return cl


class SuperiorsExtenders(Harness):
    pid, name = "C03", "superiors_extenders"
    functions = [CP + "find_protoclusters", CP + "apply_extenders", CP + "remove_redundant_protoclusters",
                 RPM + "DetectionRule.can_extend_to", CP + "merge_over_origin"]
    bound = ("two rules r1 (with EXTENDERS x) and r2 SUPERIORS r1; three mutually disjoint genes in every left-to-right order: "
             "one anchoring r1, one anchoring r2, one carrying only the extender profile; symbolic coordinates, cutoffs and record "
             "length; linear record")
    outside = "overlapping/nested genes in this harness, circular records, chains of several extender genes, more than one superior"

    def variants(self, tier):
        import itertools
        return [{"order": list(p)} for p in itertools.permutations(["A", "B", "X"])]

    def vars(self, var):
        d = {"n": "int", "c1": "int", "c2": "int", "nb": "int"}
        for i in range(3):
            d.update(shape_vars("g%d" % i, "s"))
        return d

    def pre(self, var, v):
        n = v["n"]
        return L.And([shape_pre("g%d" % i, "s", v, n) for i in range(3)],
                     v["g0e0"] <= v["g1s0"], v["g1e0"] <= v["g2s0"],
                     v["c1"] >= 1, v["c2"] >= 1, v["nb"] >= 0, v["c1"] <= 3 * n, v["c2"] <= 3 * n, v["nb"] <= 3 * n)

    def run(self, var, v):
        from antismash.common.hmm_rule_parser.structures import ProfileHit
        rec = mkrecord(v["n"], False)
        role = {r: "g%d" % i for i, r in enumerate(var["order"])}
        for i in range(3):
            rec.add_cds_feature(DummyCDS(location=build("g%d" % i, "s", v), locus_tag="g%d" % i, translation="A"))
        r1 = rp.DetectionRule("r1", "cat", v["c1"], v["nb"], rp.SingleCondition(False, "a"),
                              extenders=rp.SingleCondition(False, "x"))
        r2 = rp.DetectionRule("r2", "cat", v["c2"], v["nb"], rp.SingleCondition(False, "b"), superiors=["r1"])
        hits = {role["A"]: [ProfileHit(role["A"], "a", 50., 1e-5)], role["B"]: [ProfileHit(role["B"], "b", 50., 1e-5)],
                role["X"]: [ProfileHit(role["X"], "x", 50., 1e-5)]}
        doms = defaultdict(lambda: defaultdict(set))
        protos = cp.find_protoclusters(rec, {"r1": {role["A"]}, "r2": {role["B"]}}, {"r1": r1, "r2": r2}, hits, doms)
        return [{"product": p.product, "core": canon_loc(p.core_location), "extent": canon_loc(p.location)} for p in protos]

    def post(self, var, v, out):
        if is_raised(out):
            return [("no_raise", False)]
        idx = {r: i for i, r in enumerate(var["order"])}
        g = [model_parts("g%d" % i, "s", v)[0] for i in range(3)]
        ga, gb, gx = g[idx["A"]], g[idx["B"]], g[idx["X"]]
        dist_ax = L.If(gx[0] >= ga[1], gx[0] - ga[1], ga[0] - gx[1])
        admitted = dist_ax <= v["c1"]       # the extender walk stops at a gene further than the cutoff
        lo = L.If(admitted, L.Min(ga[0], gx[0]), ga[0])
        hi = L.If(admitted, L.Max(ga[1], gx[1]), ga[1])
        r1s = [p for p in out if p["product"] == "r1"]
        r2s = [p for p in out if p["product"] == "r2"]
        cl = [("superior_rule_kept_once", len(r1s) == 1)]
        if len(r1s) == 1:
            core = r1s[0]["core"]
            cl.append(("core_is_group_plus_admitted_extender", L.And(len(core) == 1, core[0][0] == lo, core[0][1] == hi)))
        covered = L.And(lo <= gb[0], gb[1] <= hi)
        cl.append(("inferior_dropped_iff_superior_covers_its_core_genes", L.Iff(len(r2s) == 0, covered)))
        cl.append(("at_most_one_inferior", len(r2s) <= 1))
        if len(r2s) == 1:
            core = r2s[0]["core"]
            cl.append(("inferior_core_is_its_anchor", L.And(len(core) == 1, core[0][0] == gb[0], core[0][1] == gb[1])))
        return cl


class SuperiorAcrossOrigin(Harness):
    """SUPERIORS when the superior's core runs through the origin: two genes anchoring the superior rule on either side of the
    origin, and a gene anchoring the inferior rule in the gap between one of them and the origin"""
    pid, name = "C03", "superior_across_origin"
    functions = [CP + "find_protoclusters", CP + "remove_redundant_protoclusters", CP + "merge_over_origin"]
    bound = ("circular record; rule r2 SUPERIORS r1; two disjoint simple genes anchoring r1, one before and one after the origin, "
             "and a simple gene anchoring r2 between one of them and the origin (either side); symbolic coordinates, cutoffs and "
             "record length; neighbourhood 0; the two r1 genes are not within the cutoff the long way round and their chain across "
             "the origin, if any, is shorter than half the record")
    outside = "extenders here (superiors_extenders); more genes; origin-spanning genes (chains)"
    task_paths = 150

    def variants(self, tier):
        return [{"side": "before"}, {"side": "after"}]

    def vars(self, var):
        d = {"n": "int", "c1": "int", "c2": "int"}
        for name in ("a1", "a2", "b"):
            d.update(shape_vars(name, "s"))
        return d

    def pre(self, var, v):
        n = v["n"]
        c = [shape_pre(name, "s", v, n) for name in ("a1", "a2", "b")]
        c += [v["a2e0"] <= v["a1s0"], v["c1"] >= 1, v["c2"] >= 1, v["c1"] <= 3 * n, v["c2"] <= 3 * n,
              v["a1s0"] - v["a2e0"] >= v["c1"],                              # not chained the long way round
              2 * ((n - v["a1s0"]) + v["a2e0"]) < n]                         # the arc through the origin is the short one
        if var["side"] == "before":
            c += [v["a1e0"] <= v["bs0"]]                                     # a1 | b | origin | a2
        else:
            c += [v["be0"] <= v["a2s0"]]                                     # a1 | origin | b | a2
        return L.And(c)

    def run(self, var, v):
        from antismash.common.hmm_rule_parser.structures import ProfileHit
        rec = mkrecord(v["n"], True)
        for name in ("a1", "a2", "b"):
            rec.add_cds_feature(DummyCDS(location=build(name, "s", v), locus_tag=name, translation="A"))
        r1 = rp.DetectionRule("r1", "cat", v["c1"], 0, rp.SingleCondition(False, "a"))
        r2 = rp.DetectionRule("r2", "cat", v["c2"], 0, rp.SingleCondition(False, "b"), superiors=["r1"])
        hits = {"a1": [ProfileHit("a1", "a", 50., 1e-5)], "a2": [ProfileHit("a2", "a", 50., 1e-5)], "b": [ProfileHit("b", "b", 50., 1e-5)]}
        doms = defaultdict(lambda: defaultdict(set))
        protos = cp.find_protoclusters(rec, {"r1": {"a1", "a2"}, "r2": {"b"}}, {"r1": r1, "r2": r2}, hits, doms)
        return [{"product": p.product, "core": canon_loc(p.core_location)} for p in protos]

    def post(self, var, v, out):
        if is_raised(out):
            return [("no_raise", False)]
        n = v["n"]
        chained = (n - v["a1e0"]) + v["a2s0"] < v["c1"]
        r1s = [p for p in out if p["product"] == "r1"]
        r2s = [p for p in out if p["product"] == "r2"]
        cl = [("superior_rule_chained_iff_within_cutoff_across_the_origin", L.Iff(len(r1s) == 1, chained)),
              ("at_most_one_inferior", len(r2s) <= 1),
              # chained: the superior's core is a1 .. origin .. a2 and covers the inferior's gene; otherwise neither r1 core does
              ("inferior_dropped_iff_superior_covers_its_core_genes", L.Iff(len(r2s) == 0, chained))]
        if len(r1s) == 1:
            core = r1s[0]["core"]
            cl.append(("core_runs_through_the_origin", L.And(len(core) == 2, core[0][0] == v["a1s0"], core[0][1] == n,
                                                             core[1][0] == 0, core[1][1] == v["a2e0"])))
        return cl

    def klass(self, var, out):
        if is_raised(out):
            return "raised:" + out.etype
        return "protoclusters:%d" % len(out)

    def expected_classes(self, var):
        return {"protoclusters:1", "protoclusters:3"}


HARNESSES = [Chains(), SuperiorsExtenders(), SuperiorAcrossOrigin()]
