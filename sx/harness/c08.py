"""C08 - genes belong to exactly the areas that contain them, whatever the build order."""
import itertools

from antismash.common.secmet.features import SubRegion
from antismash.common.secmet.test.helpers import DummyCDS, DummyProtocluster

from .. import logic as L
from .c04 import build, model_parts, shape_pre, shape_vars
from .common import Harness, canon_loc, cn, contains_parts, is_raised, mkrecord, overlap_parts

R = "antismash.common.secmet.record:Record."


def gene_order_pre(shapes, v, prefix="g"):
    """simple genes are supplied in (start, end) order and are pairwise distinct"""
    cs = []
    simple = [i for i, sh in enumerate(shapes) if sh == "s"]
    for a, b in zip(simple, simple[1:]):
        sa, ea = v["%s%ds0" % (prefix, a)], v["%s%de0" % (prefix, a)]
        sb, eb = v["%s%ds0" % (prefix, b)], v["%s%de0" % (prefix, b)]
        cs.append(L.Or(sa < sb, L.And(sa == sb, ea < eb)))
    return L.And(cs)


class Lookup(Harness):
    pid, name = "C08", "lookup"
    functions = [R + "get_cds_features_within_location", R + "add_cds_feature", R + "_link_cds_to_parent",
                 "antismash.common.secmet.features.feature:Feature.__lt__",
                 "antismash.common.secmet.features.feature:Feature.is_contained_by",
                 "antismash.common.secmet.features.feature:Feature.overlaps_with"]
    bound = "G <= 3 (quick) / 4 (thorough) genes with symbolic coordinates (nesting, equal starts allowed; optionally one origin-spanning gene), query simple or origin-spanning, with_overlapping both, symbolic record length"
    outside = "G > 4; genes with more than two exons"
    task_paths = 200

    def variants(self, tier):
        out = []
        gmax = 3 if tier == "quick" else 4
        for g in range(1, gmax + 1):
            for q in ("s", "o"):
                for ov in (False, True):
                    out.append({"genes": ["s"] * g, "query": q, "overlapping": ov})
                    if g <= (2 if tier == "quick" else 3):
                        out.append({"genes": ["s"] * (g - 1) + ["o"], "query": q, "overlapping": ov})
                    if g == 2 or (tier == "thorough" and g == 3):
                        # a spliced gene (two exons, intron between) among simple genes
                        out.append({"genes": ["j2"] + ["s"] * (g - 1), "query": q, "overlapping": ov})
        return out

    def vars(self, var):
        d = {"n": "int"}
        for i, sh in enumerate(var["genes"]):
            d.update(shape_vars("g%d" % i, sh))
        d.update(shape_vars("q", var["query"]))
        return d

    def pre(self, var, v):
        n = v["n"]
        return L.And([shape_pre("g%d" % i, sh, v, n) for i, sh in enumerate(var["genes"])],
                     shape_pre("q", var["query"], v, n), gene_order_pre(var["genes"], v))

    def run(self, var, v):
        circ = "o" in var["genes"] or var["query"] == "o"
        rec = mkrecord(v["n"], circ)
        genes = []
        for i, sh in enumerate(var["genes"]):
            g = DummyCDS(location=build("g%d" % i, sh, v), locus_tag="g%d" % i, translation="A")
            rec.add_cds_feature(g)
            genes.append(g)
        found = rec.get_cds_features_within_location(build("q", var["query"], v), with_overlapping=var["overlapping"])
        return [genes.index(f) for f in found]

    def post(self, var, v, out):
        if is_raised(out):
            return [("no_raise", False)]
        q = model_parts("q", var["query"], v)
        cl = []
        for i, sh in enumerate(var["genes"]):
            g = model_parts("g%d" % i, sh, v)
            want = overlap_parts(g, q) if var["overlapping"] else contains_parts(q, g)
            cl.append(("gene_returned_iff_in_location", L.Iff(i in out, want)))
        simple = [i for i in out if var["genes"][i] == "s"]
        if var["query"] == "s":
            cl.append(("location_order", simple == sorted(simple)))
        else:
            # along an origin-spanning location the part before the origin comes first; only genes lying
            # inside a single part have a defined position
            def inside(i, part):
                g = model_parts("g%d" % i, "s", v)[0]
                return L.And(part[0] <= g[0], g[1] <= part[1])
            wrong = []
            for a, b in itertools.combinations(range(len(simple)), 2):
                i, j = simple[a], simple[b]   # i reported before j
                j_before_i = L.Or(L.And(inside(j, q[0]), inside(i, q[1])),
                                  L.And(L.Or(L.And(inside(i, q[0]), inside(j, q[0])),
                                             L.And(inside(i, q[1]), inside(j, q[1]))), j < i))
                wrong.append(j_before_i)
            cl.append(("location_order", L.Not(L.Or(wrong))))
        cl.append(("no_duplicates", len(set(out)) == len(out)))
        return cl


class BuildOrder(Harness):
    pid, name = "C08", "build_order"
    functions = [R + "add_cds_feature", R + "_link_cds_to_parent", R + "add_protocluster", R + "add_subregion",
                 R + "create_regions", R + "add_region", R + "get_cds_features_within_location",
                 "antismash.common.secmet.features.cdscollection:CDSCollection.add_cds",
                 "antismash.common.secmet.features.region.structures:Region.add_cds",
                 "antismash.common.secmet.features.protocluster:Protocluster.add_cds"]
    bound = ("G = 2 genes (one optionally with a core annotation for the protocluster's product, the other for a different product), "
             "one protocluster (core inside extent), one subregion and one create_regions() call, "
             "interleavings of the five calls (6 representative orders quick, all 60 thorough); symbolic coordinates; linear record")
    outside = "more genes/areas; candidate clusters in this harness (see C05/C06)"
    task_paths = 300

    def variants(self, tier):
        ops = ["g0", "g1", "P", "S", "R"]
        if tier == "quick":
            orders = [["g0", "g1", "P", "S", "R"], ["P", "S", "R", "g0", "g1"], ["S", "R", "P", "g0", "g1"],
                      ["S", "R", "g0", "P", "g1"], ["P", "g0", "S", "R", "g1"], ["S", "g0", "R", "P", "g1"]]
        else:
            orders = [list(p) for p in itertools.permutations(ops) if p.index("g0") < p.index("g1")]
        return [{"order": p} for p in orders]

    def vars(self, var):
        d = {"n": "int", "ann0": "bool"}
        for nm in ("g0", "g1", "pc", "pe", "sr"):
            d.update(shape_vars(nm, "s"))
        return d

    def pre(self, var, v):
        n = v["n"]
        return L.And([shape_pre(nm, "s", v, n) for nm in ("g0", "g1", "pc", "pe", "sr")],
                     v["pes0"] <= v["pcs0"], v["pce0"] <= v["pee0"],
                     gene_order_pre(["s", "s"], v))

    def run(self, var, v):
        rec = mkrecord(v["n"], False)
        genes = [DummyCDS(location=build("g%d" % i, "s", v), locus_tag="g%d" % i, translation="A") for i in range(2)]
        proto = DummyProtocluster(start=v["pes0"], end=v["pee0"], core_start=v["pcs0"], core_end=v["pce0"])
        # gene 0 may carry a core annotation for the protocluster's product, gene 1 has one for another product
        from antismash.common.secmet.qualifiers import GeneFunction
        if v["ann0"]:
            genes[0].gene_functions.add(GeneFunction.CORE, "test", "profile hit", product=proto.product)
        genes[1].gene_functions.add(GeneFunction.CORE, "test", "profile hit", product=proto.product + "_other")
        genes[1].gene_functions.add(GeneFunction.ADDITIONAL, "test", "profile hit", product=proto.product)
        sub = SubRegion(build("sr", "s", v), tool="test")
        for op in var["order"]:
            if op == "P":
                rec.add_protocluster(proto)
            elif op == "S":
                rec.add_subregion(sub)
            elif op == "R":
                rec.create_regions()
            else:
                rec.add_cds_feature(genes[int(op[1])])
        regions = rec.get_regions()
        region_genes = [[genes.index(c) for c in r.cds_children] for r in regions]
        gene_region = [(regions.index(g.region) if g.region is not None else -1) for g in genes]
        return {"proto": [genes.index(c) for c in proto.cds_children], "sub": [genes.index(c) for c in sub.cds_children],
                "defining": sorted(genes.index(c) for c in proto.definition_cdses),
                "regions": len(regions), "region_genes": region_genes, "gene_region": gene_region}

    def post(self, var, v, out):
        if is_raised(out):
            return [("no_raise", False)]
        cl = []
        for key, area in (("proto", "pe"), ("sub", "sr")):
            a = model_parts(area, "s", v)
            for i in range(2):
                g = model_parts("g%d" % i, "s", v)
                cl.append(("area_lists_exactly_contained_genes", L.Iff(i in out[key], contains_parts(a, g))))
            cl.append(("no_duplicates", len(set(out[key])) == len(out[key])))
        core = model_parts("pc", "s", v)
        cl.append(("defining_genes_are_the_annotated_genes_inside_the_core",
                   L.And(L.Iff(0 in out["defining"], L.And(v["ann0"], contains_parts(core, model_parts("g0", "s", v)))),
                         1 not in out["defining"])))
        # the region exists iff the subregion was there when create_regions ran; its location is the subregion's
        order = var["order"]
        has_region = order.index("S") < order.index("R")
        cl.append(("region_count", out["regions"] == (1 if has_region else 0)))
        sr = model_parts("sr", "s", v)
        for i in range(2):
            g = model_parts("g%d" % i, "s", v)
            if has_region and out["regions"] == 1:
                inside = contains_parts(sr, g)
                cl.append(("gene_points_to_the_region_containing_it", L.Iff(out["gene_region"][i] == 0, inside)))
                cl.append(("region_lists_exactly_contained_genes", L.Iff(i in out["region_genes"][0], inside)))
            else:
                cl.append(("gene_points_to_the_region_containing_it", out["gene_region"][i] == -1))
        return cl


class GenesAfterRegions(Harness):
    """several regions (the bisection in _link_cds_to_parent only matters with more than one): genes added before or after them"""
    pid, name = "C08", "genes_after_regions"
    functions = [R + "add_cds_feature", R + "_link_cds_to_parent", R + "add_subregion", R + "create_regions", R + "add_region",
                 "antismash.common.secmet.features.region.structures:Region.add_cds",
                 "antismash.common.secmet.features.feature:Feature.__lt__"]
    bound = ("K = 2 (quick) / 3 (thorough) subregions with symbolic coordinates (disjoint, touching, overlapping or nested: 1..K regions), "
             "G = 2 genes with symbolic coordinates (incl. exactly at a region's start or end, equal to a region, between regions), "
             "genes added before the regions exist, after, or one each; linear record")
    outside = "more regions / genes; circular records (regions never overlap, the bisection is the same code)"
    task_paths = 300

    def variants(self, tier):
        out = []
        for k in ((2,) if tier == "quick" else (2, 3)):
            for order in ("after", "before", "mixed"):
                out.append({"k": k, "order": order})
        return out

    def vars(self, var):
        d = {"n": "int"}
        for i in range(2):
            d.update(shape_vars("g%d" % i, "s"))
        for i in range(var["k"]):
            d.update(shape_vars("r%d" % i, "s"))
        return d

    def pre(self, var, v):
        n = v["n"]
        return L.And([shape_pre("g%d" % i, "s", v, n) for i in range(2)], [shape_pre("r%d" % i, "s", v, n) for i in range(var["k"])],
                     gene_order_pre(["s", "s"], v),
                     [v["r%ds0" % i] <= v["r%ds0" % (i + 1)] for i in range(var["k"] - 1)])     # symmetry: supplied by start

    def run(self, var, v):
        rec = mkrecord(v["n"], False)
        genes = [DummyCDS(location=build("g%d" % i, "s", v), locus_tag="g%d" % i, translation="A") for i in range(2)]
        early = {"after": [], "before": [0, 1], "mixed": [0]}[var["order"]]
        for i in early:
            rec.add_cds_feature(genes[i])
        for i in range(var["k"]):
            rec.add_subregion(SubRegion(build("r%d" % i, "s", v), tool="test", label="s%d" % i))
        rec.create_regions()
        for i in range(2):
            if i not in early:
                rec.add_cds_feature(genes[i])
        regions = list(rec.get_regions())
        return {"regions": [canon_loc(r.location) for r in regions],
                "region_genes": [[genes.index(c) for c in r.cds_children] for r in regions],
                "gene_region": [(regions.index(g.region) if g.region is not None else -1) for g in genes]}

    def post(self, var, v, out):
        if is_raised(out):
            return [("no_raise", False)]
        cl = []
        for i in range(2):
            g = model_parts("g%d" % i, "s", v)
            inside_any = []
            for j, loc in enumerate(out["regions"]):
                inside = contains_parts([(p[0], p[1]) for p in loc], g)
                inside_any.append(inside)
                cl.append(("gene_points_to_the_region_containing_it", L.Iff(out["gene_region"][i] == j, inside)))
                cl.append(("region_lists_exactly_contained_genes", L.Iff(i in out["region_genes"][j], inside)))
            cl.append(("gene_points_to_the_region_containing_it", L.Iff(out["gene_region"][i] == -1, L.Not(L.Or(inside_any)))))
        for lst in out["region_genes"]:
            cl.append(("no_duplicates", len(set(lst)) == len(lst)))
        return cl

    def klass(self, var, out):
        if is_raised(out):
            return "raised:" + out.etype
        return "regions:%d" % len(out["regions"])

    def expected_classes(self, var):
        return {"regions:%d" % j for j in range(1, var["k"] + 1)}


HARNESSES = [Lookup(), BuildOrder(), GenesAfterRegions()]
