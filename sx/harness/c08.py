"""C08 - genes belong to exactly the areas that contain them, whatever the build order."""
import itertools

from antismash.common.secmet.features import SubRegion
from antismash.common.secmet.test.helpers import DummyCDS, DummyProtocluster

from .. import logic as L
from .c04 import build, model_parts, shape_pre, shape_vars
from .common import Harness, canon_loc, cn, contains_parts, is_raised, mkrecord, overlap_parts

R = "antismash.common.secmet.record:Record."


def gene_order_pre(shapes, v, prefix="g"):
    """simple genes are supplied in (start, end) order and are pairwise distinct"""
    cs = []
    simple = [i for i, sh in enumerate(shapes) if sh == "s"]
    for a, b in zip(simple, simple[1:]):
        sa, ea = v["%s%ds0" % (prefix, a)], v["%s%de0" % (prefix, a)]
        sb, eb = v["%s%ds0" % (prefix, b)], v["%s%de0" % (prefix, b)]
        cs.append(L.Or(sa < sb, L.And(sa == sb, ea < eb)))
    return L.And(cs)


class Lookup(Harness):
    pid, name = "C08", "lookup"
    functions = [R + "get_cds_features_within_location", R + "add_cds_feature", R + "_link_cds_to_parent",
                 "antismash.common.secmet.features.feature:Feature.__lt__",
                 "antismash.common.secmet.features.feature:Feature.is_contained_by",
                 "antismash.common.secmet.features.feature:Feature.overlaps_with"]
    bound = "G <= 3 (quick) / 4 (thorough) genes with symbolic coordinates (nesting, equal starts allowed; optionally one origin-spanning gene), query simple or origin-spanning, with_overlapping both, symbolic record length"
    outside = "G > 4; multi-exon genes in the lookup harness"
    task_paths = 200

    def variants(self, tier):
        out = []
        gmax = 3 if tier == "quick" else 4
        for g in range(1, gmax + 1):
            for q in ("s", "o"):
                for ov in (False, True):
                    out.append({"genes": ["s"] * g, "query": q, "overlapping": ov})
                    if g <= (2 if tier == "quick" else 3):
                        out.append({"genes": ["s"] * (g - 1) + ["o"], "query": q, "overlapping": ov})
        return out

    def vars(self, var):
        d = {"n": "int"}
        for i, sh in enumerate(var["genes"]):
            d.update(shape_vars("g%d" % i, sh))
        d.update(shape_vars("q", var["query"]))
        return d

    def pre(self, var, v):
        n = v["n"]
        return L.And([shape_pre("g%d" % i, sh, v, n) for i, sh in enumerate(var["genes"])],
                     shape_pre("q", var["query"], v, n), gene_order_pre(var["genes"], v))

    def run(self, var, v):
        circ = "o" in var["genes"] or var["query"] == "o"
        rec = mkrecord(v["n"], circ)
        genes = []
        for i, sh in enumerate(var["genes"]):
            g = DummyCDS(location=build("g%d" % i, sh, v), locus_tag="g%d" % i, translation="A")
            rec.add_cds_feature(g)
            genes.append(g)
        found = rec.get_cds_features_within_location(build("q", var["query"], v), with_overlapping=var["overlapping"])
        return [genes.index(f) for f in found]

    def post(self, var, v, out):
        if is_raised(out):
            return [("no_raise", False)]
        q = model_parts("q", var["query"], v)
        cl = []
        for i, sh in enumerate(var["genes"]):
            g = model_parts("g%d" % i, sh, v)
            want = overlap_parts(g, q) if var["overlapping"] else contains_parts(q, g)
            cl.append(("gene_returned_iff_in_location", L.Iff(i in out, want)))
        simple = [i for i in out if var["genes"][i] == "s"]
        if var["query"] == "s":
            cl.append(("location_order", simple == sorted(simple)))
        else:
            # along an origin-spanning location the part before the origin comes first; only genes lying
            # inside a single part have a defined position
            def inside(i, part):
                g = model_parts("g%d" % i, "s", v)[0]
                return L.And(part[0] <= g[0], g[1] <= part[1])
            wrong = []
            for a, b in itertools.combinations(range(len(simple)), 2):
                i, j = simple[a], simple[b]   # i reported before j
                j_before_i = L.Or(L.And(inside(j, q[0]), inside(i, q[1])),
                                  L.And(L.Or(L.And(inside(i, q[0]), inside(j, q[0])),
                                             L.And(inside(i, q[1]), inside(j, q[1]))), j < i))
                wrong.append(j_before_i)
            cl.append(("location_order", L.Not(L.Or(wrong))))
        cl.append(("no_duplicates", len(set(out)) == len(out)))
        return cl


class BuildOrder(Harness):
    pid, name = "C08", "build_order"
    functions = [R + "add_cds_feature", R + "_link_cds_to_parent", R + "add_protocluster", R + "add_subregion",
                 R + "get_cds_features_within_location",
                 "antismash.common.secmet.features.cdscollection:CDSCollection.add_cds",
                 "antismash.common.secmet.features.protocluster:Protocluster.add_cds"]
    bound = "G = 2 genes, one protocluster (core inside extent) and one subregion, every interleaving of the four add calls; symbolic coordinates; linear record"
    outside = "more genes/areas; candidate clusters and regions in this harness (see C06)"

    def variants(self, tier):
        # order of the four operations: g0, g1, P(rotocluster), S(ubregion)
        ops = ["g0", "g1", "P", "S"]
        perms = [list(p) for p in itertools.permutations(ops) if p.index("g0") < p.index("g1")]
        return [{"order": p} for p in perms]

    def vars(self, var):
        d = {"n": "int"}
        for nm in ("g0", "g1", "pc", "pe", "sr"):
            d.update(shape_vars(nm, "s"))
        return d

    def pre(self, var, v):
        n = v["n"]
        return L.And([shape_pre(nm, "s", v, n) for nm in ("g0", "g1", "pc", "pe", "sr")],
                     v["pes0"] <= v["pcs0"], v["pce0"] <= v["pee0"],
                     gene_order_pre(["s", "s"], v))

    def run(self, var, v):
        rec = mkrecord(v["n"], False)
        genes = [DummyCDS(location=build("g%d" % i, "s", v), locus_tag="g%d" % i, translation="A") for i in range(2)]
        proto = DummyProtocluster(start=v["pes0"], end=v["pee0"], core_start=v["pcs0"], core_end=v["pce0"])
        sub = SubRegion(build("sr", "s", v), tool="test")
        for op in var["order"]:
            if op == "P":
                rec.add_protocluster(proto)
            elif op == "S":
                rec.add_subregion(sub)
            else:
                rec.add_cds_feature(genes[int(op[1])])
        return [[genes.index(c) for c in proto.cds_children], [genes.index(c) for c in sub.cds_children]]

    def post(self, var, v, out):
        if is_raised(out):
            return [("no_raise", False)]
        cl = []
        for idx, area in ((0, "pe"), (1, "sr")):
            a = model_parts(area, "s", v)
            for i in range(2):
                g = model_parts("g%d" % i, "s", v)
                cl.append(("area_lists_exactly_contained_genes", L.Iff(i in out[idx], contains_parts(a, g))))
            cl.append(("no_duplicates", len(set(out[idx])) == len(out[idx])))
        return cl


HARNESSES = [Lookup(), BuildOrder()]
