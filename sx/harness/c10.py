"""C10 - annotated records survive GenBank and JSON round trips unchanged (object level: the text layer is identity)."""
import re

from Bio.SeqFeature import SeqFeature
from Bio.SeqRecord import SeqRecord

from antismash.common import serialiser
from antismash.common.secmet import Record
from antismash.common.secmet.features import SubRegion
from antismash.common.secmet.features.protocluster import Protocluster
from antismash.common.secmet.test.helpers import DummyCDS

from .. import logic as L
from .c04 import build, model_parts, shape_pre, shape_vars
from .c12 import num
from .common import Harness, LenSeq, canon_loc, cn, contains_parts, is_raised, mkrecord

REC = "antismash.common.secmet.record:Record."

# reproducible exploration: sets of Protocluster objects iterate by product name (see C05 / C17)
Protocluster.__hash__ = lambda self: hash(self.product)


def tree_copy(tree):
    """what a text layer does to a tree of dicts, lists and strings: the reader gets fresh containers"""
    if isinstance(tree, dict):
        return {key: tree_copy(val) for key, val in tree.items()}
    if isinstance(tree, (list, tuple)):
        return [tree_copy(val) for val in tree]
    return tree


def qual_value(text):
    """qualifier texts with rendered numbers compare by the numbers they stand for"""
    if isinstance(text, str) and "§" in text:
        return ("num", num(text)) if text.startswith("§") and text.endswith("§") and text.count("§") == 2 else ("text", text)
    return ("text", text)


def feature_table(bio_features):
    rows = []
    for f in bio_features:
        quals = []
        for key in sorted(f.qualifiers):
            val = f.qualifiers[key]
            quals.append((key, [str(x) for x in val] if isinstance(val, list) else str(val)))
        quals.append(("(location operator)", str(getattr(f.location, "operator", None))))
        rows.append({"type": f.type, "loc": canon_loc(f.location), "quals": quals})
    return rows


_TOKEN = re.compile("(§[0-9]+§)")


def same_text(a, b):
    """two rendered texts are the same if their literal parts agree and the numbers rendered into them are equal"""
    if a == b:
        return True
    if not (isinstance(a, str) and isinstance(b, str)) or ("§" not in a and "§" not in b):
        return False
    # numbers may be rendered as digits on one side and as a token on the other
    pa, pb = _TOKEN.split(a), _TOKEN.split(b)
    if len(pa) != len(pb):
        pa, pb = re.split("(§[0-9]+§|[0-9]+)", a), re.split("(§[0-9]+§|[0-9]+)", b)
        if len(pa) != len(pb):
            return False
    conds = []
    for x, y in zip(pa, pb):
        if x == y:
            continue
        xnum = x.startswith("§") or x.isdigit()
        ynum = y.startswith("§") or y.isdigit()
        if not (xnum and ynum):
            return False
        conds.append(num(x) == num(y))
    return L.And(conds)


def same_quals(a, b):
    if len(a) != len(b):
        return False
    conds = []
    for (ka, va), (kb, vb) in zip(a, b):
        if ka != kb or isinstance(va, list) != isinstance(vb, list):
            return False
        if not isinstance(va, list):
            va, vb = [va], [vb]
        if len(va) != len(vb):
            return False
        conds += [same_text(x, y) for x, y in zip(va, vb)]
    return L.And(conds)


def same_rows(a, b):
    if len(a) != len(b):
        return False
    conds = []
    for x, y in zip(a, b):
        if x["type"] != y["type"] or len(x["loc"]) != len(y["loc"]):
            return False
        conds.append(same_quals(x["quals"], y["quals"]))
        conds += [L.And(p[0] == q[0], p[1] == q[1], p[2] == q[2]) for p, q in zip(x["loc"], y["loc"])]
    return L.And(conds)


def summary(rec):
    """structure of a secmet record: areas with locations, numbering and cross references"""
    protos = rec.get_protoclusters()
    cands = rec.get_candidate_clusters()
    subs = rec.get_subregions()
    regions = rec.get_regions()
    return {
        "cds": [(c.get_name(), canon_loc(c.location)) for c in rec.get_cds_features()],
        "protoclusters": [(p.product, canon_loc(p.location), canon_loc(p.core_location), cn(p.cutoff), cn(p.neighbourhood_range),
                           rec.get_protocluster_number(p)) for p in protos],
        "candidates": [(str(c.kind), canon_loc(c.location), [p.product for p in c.protoclusters], rec.get_candidate_cluster_number(c))
                       for c in cands],
        "subregions": [(s.label, canon_loc(s.location), rec.get_subregion_number(s)) for s in subs],
        "regions": [(canon_loc(r.location), [rec.get_candidate_cluster_number(c) for c in r.candidate_clusters],
                     [rec.get_subregion_number(s) for s in r.subregions], rec.get_region_number(r)) for r in regions],
        "gene_regions": [(c.get_name(), rec.get_region_number(c.region) if c.region else 0) for c in rec.get_cds_features()],
    }


def same_summary(a, b):
    conds = []

    def walk(x, y):
        if isinstance(x, dict):
            if not isinstance(y, dict) or sorted(x) != sorted(y):
                conds.append(False)
                return
            for key in sorted(x):
                walk(x[key], y[key])
        elif isinstance(x, (list, tuple)):
            if not isinstance(y, (list, tuple)) or len(x) != len(y):
                conds.append(False)
                return
            for p, q in zip(x, y):
                walk(p, q)
        else:
            conds.append(same_text(x, y) if isinstance(x, str) and isinstance(y, str) else x == y)
    for key in a:
        walk(a[key], b[key])
    return L.And(conds)


class RoundTrip(Harness):
    pid, name = "C10", "round_trip"
    functions = [REC + "to_biopython", REC + "from_biopython", REC + "add_biopython_feature", REC + "create_candidate_clusters",
                 REC + "create_regions",
                 "antismash.common.secmet.features.protocluster:Protocluster.to_biopython",
                 "antismash.common.secmet.features.protocluster:Protocluster.from_biopython",
                 "antismash.common.secmet.features.candidate_cluster.structures:CandidateCluster.to_biopython",
                 "antismash.common.secmet.features.candidate_cluster.structures:CandidateCluster.from_biopython",
                 "antismash.common.secmet.features.region.structures:Region.to_biopython",
                 "antismash.common.secmet.features.region.structures:Region.from_biopython",
                 "antismash.common.secmet.features.subregion:SubRegion.to_biopython",
                 "antismash.common.secmet.features.cds_feature:CDSFeature.to_biopython",
                 "antismash.common.secmet.features.cds_feature:CDSFeature.from_biopython",
                 "antismash.common.serialiser:record_to_json", "antismash.common.serialiser:record_from_json",
                 "antismash.common.serialiser:feature_to_json", "antismash.common.serialiser:feature_from_json",
                 "antismash.common.secmet.locations:location_from_string"]
    bound = ("a record with one gene, 1-2 protoclusters (core inside extent; optionally origin-spanning; optionally identical coordinates) "
             "or 3 (middle one core == extent, outer ones with a neighbourhood on one side, gene outside) "
             "with the candidate clusters and regions the real formation code builds from them, optionally a subregion (not together "
             "with two free protoclusters); symbolic "
             "coordinates and record length; both the GenBank path (to_biopython -> from_biopython) and the JSON path (record_to_json -> "
             "record_from_json), each followed by a second conversion (fixed point)")
    outside = ("GenBank text and JSON text (SeqIO writer/parser, json.dumps/loads modelled as identity on the feature tree); domains, "
               "motifs, modules, gene functions; the sequence itself")
    stubs = ["text layers (Bio.SeqIO GenBank writer/parser, json.dumps/loads) are identity on the feature / JSON tree",
             "rendered integers are opaque per-expression tokens without equality forks",
             "Protocluster.__hash__ pinned to hash(product)"]
    task_paths = 120

    def variants(self, tier):
        out = []
        for shapes in (["s"], ["s", "s"], ["oe"], ["same"]):
            for sub in (False, True):
                for path in ("genbank", "json"):
                    if sub and shapes == ["s", "s"]:
                        continue        # two free protoclusters plus a free subregion: ~10^5 paths per variant, not registered
                    if tier == "quick" and sub and shapes == ["same"]:
                        continue
                    out.append({"shapes": shapes, "sub": sub, "path": path})
        # three protoclusters (non-consecutive numbering inside a candidate needs three): cores == extents, gene outside them
        out.append({"shapes": ["s", "s", "s"], "sub": False, "path": "genbank", "ordered": True})
        if tier == "thorough":
            out.append({"shapes": ["s", "s", "s"], "sub": False, "path": "json", "ordered": True})
        return out

    def vars(self, var):
        d = {"n": "int"}
        for i, sh in enumerate(self.real_shapes(var)):
            d.update(shape_vars("e%d" % i, "o" if sh == "oe" else "s"))
            d.update(shape_vars("c%d" % i, "s"))
        d.update(shape_vars("g", "s"))
        if var["sub"]:
            d.update(shape_vars("r", "s"))
        return d

    def real_shapes(self, var):
        return ["s"] if var["shapes"] == ["same"] else var["shapes"]

    def pre(self, var, v):
        n = v["n"]
        c = [shape_pre("g", "s", v, n), v["ge0"] - v["gs0"] >= 3]
        for i, sh in enumerate(self.real_shapes(var)):
            c.append(shape_pre("e%d" % i, "o" if sh == "oe" else "s", v, n))
            c.append(shape_pre("c%d" % i, "s", v, n))
            c.append(contains_parts(model_parts("e%d" % i, "o" if sh == "oe" else "s", v), model_parts("c%d" % i, "s", v)))
        if var["sub"]:
            c.append(shape_pre("r", "s", v, n))
        if var.get("ordered"):
            c.append(L.And(v["e0s0"] <= v["e1s0"], v["e1s0"] <= v["e2s0"]))   # symmetry: supplied by start
            for i in range(3):
                # middle protocluster core == extent, outer ones with a neighbourhood on one side, the gene outside all of them:
                # the subject is the numbering of three areas and of the candidates formed from them
                if i == 1:
                    c.append(L.And(v["c%ds0" % i] == v["e%ds0" % i], v["c%de0" % i] == v["e%de0" % i]))
                else:
                    c.append(v["c%de0" % i] == v["e%de0" % i])      # neighbourhood on the left only
                c.append(L.Or(v["ge0"] <= v["e%ds0" % i], v["e%de0" % i] <= v["gs0"]))
        return L.And(c)

    def build_record(self, var, v):
        n = v["n"]
        circ = "oe" in var["shapes"]
        rec = mkrecord(n, circ)
        rec.id = rec.name = "rec"
        rec.add_cds_feature(DummyCDS(location=build("g", "s", v), locus_tag="gene", translation="M"))
        shapes = self.real_shapes(var)
        count = 2 if var["shapes"] == ["same"] else len(shapes)
        for i in range(count):
            j = 0 if var["shapes"] == ["same"] else i
            sh = shapes[j]
            rec.add_protocluster(Protocluster(build("c%d" % j, "s", v), build("e%d" % j, "o" if sh == "oe" else "s", v), tool="test",
                                              product="p%d" % i, cutoff=20, neighbourhood_range=5, detection_rule="rule%d" % i))
        rec.create_candidate_clusters()
        if var["sub"]:
            rec.add_subregion(SubRegion(build("r", "s", v), tool="test", label="sub"))
        rec.create_regions()
        return rec

    def convert(self, var, rec):
        bio = rec.to_biopython()
        if var["path"] == "json":
            data = serialiser.record_to_json(bio)
            # json.dumps / json.loads: identity on the tree (text layer outside the claim); the sequence is a length carrier
            length = bio.seq._n
            orig = serialiser.sequence_from_json
            serialiser.sequence_from_json = lambda _data: LenSeq(length)
            try:
                again = serialiser.record_from_json(tree_copy(data), "bacteria")
            finally:
                serialiser.sequence_from_json = orig
        else:
            # SeqIO.write / SeqIO.parse: identity on the feature table (text layer outside the claim)
            copy = SeqRecord(bio.seq, id=bio.id, name=bio.name, description=bio.description,
                             features=[SeqFeature(f.location, type=f.type, qualifiers=tree_copy(f.qualifiers)) for f in bio.features],
                             annotations=dict(bio.annotations))
            again = Record.from_biopython(copy, "bacteria")
        return bio, again

    def run(self, var, v):
        if L.issym(v["n"]):
            from ..core import ENG
            ENG.lazy_tokens = True      # numbers rendered into qualifiers are only ever parsed back, never compared as text
        rec = self.build_record(var, v)
        first_bio, rec2 = self.convert(var, rec)
        first_rows = feature_table(first_bio.features)
        second_bio, rec3 = self.convert(var, rec2)
        return {"original": summary(rec), "reloaded": summary(rec2), "first_output": first_rows,
                "second_output": feature_table(second_bio.features), "third": summary(rec3)}

    def post(self, var, v, out):
        if is_raised(out):
            return [("round_trip_does_not_fail", False)]
        return [("reloaded_record_has_the_same_structure", same_summary(out["original"], out["reloaded"])),
                ("first_output_is_a_fixed_point", same_rows(out["first_output"], out["second_output"])),
                ("second_reload_equals_first", same_summary(out["reloaded"], out["third"]))]


class Annotations(RoundTrip):
    """every remaining feature class with its own to_biopython / from_biopython pair, one kind per variant, on a gene of symbolic
    shape; the order in which annotations were added (GO ids, NRPS/PKS qualifier domains, gene functions) is a symbolic choice"""
    pid, name = "C10", "annotations"
    SEC = "antismash.common.secmet."
    functions = [REC + "to_biopython", REC + "from_biopython", REC + "add_biopython_feature",
                 SEC + "features.feature:Feature.to_biopython", SEC + "features.feature:Feature.from_biopython",
                 SEC + "features.cds_feature:CDSFeature.to_biopython", SEC + "features.cds_feature:CDSFeature.from_biopython",
                 SEC + "features.gene:Gene.to_biopython", SEC + "features.gene:Gene.from_biopython",
                 SEC + "features.source:Source.from_biopython",
                 SEC + "features.domain:Domain.to_biopython", SEC + "features.domain:Domain.from_biopython",
                 SEC + "features.antismash_feature:AntismashFeature.to_biopython", SEC + "features.antismash_feature:AntismashFeature.from_biopython",
                 SEC + "features.pfam_domain:PFAMDomain.to_biopython", SEC + "features.pfam_domain:PFAMDomain.from_biopython",
                 SEC + "features.antismash_domain:AntismashDomain.from_biopython",
                 "antismash.detection.nrps_pks_domains.modular_domain:ModularDomain.to_biopython",
                 "antismash.detection.nrps_pks_domains.modular_domain:ModularDomain.from_biopython",
                 SEC + "features.cds_motif:CDSMotif.from_biopython", SEC + "features.cds_motif:ExternalCDSMotif.to_biopython",
                 SEC + "features.prepeptide:Prepeptide.to_biopython", SEC + "features.prepeptide:Prepeptide.from_biopython",
                 SEC + "features.module:Module.to_biopython", SEC + "features.module:Module.from_biopython",
                 SEC + "qualifiers.gene_functions:GeneFunctionAnnotations.add_from_qualifier",
                 SEC + "qualifiers.secmet:SecMetQualifier.from_biopython",
                 SEC + "qualifiers.nrps_pks:NRPSPKSQualifier.add_from_qualifier", SEC + "qualifiers.nrps_pks:NRPSPKSQualifier.add_domain",
                 SEC + "qualifiers.go:GOQualifier.from_biopython",
                 SEC + "locations:build_location_from_others", SEC + "locations:location_from_string",
                 "antismash.common.serialiser:feature_to_json", "antismash.common.serialiser:feature_from_json"]
    bound = ("a record with one gene (simple, two exons, or origin-spanning; either strand; symbolic coordinates and record length) and "
             "one kind of annotation per variant: gene functions + sec_met + NRPS/PKS qualifiers; a PFAM domain with GO terms; aSDomains "
             "(plain and modular, with subtypes / specificities); CDS motifs (antiSMASH-made and external); a prepeptide with any "
             "combination of leader and tail; an aSModule over two domains (optionally multi-gene); gene / source / misc features with "
             "notes; a gene with codon_start 2 or 3. Annotation sub-locations and protein coordinates are symbolic; insertion orders are "
             "symbolic choices; GenBank and JSON paths, each converted twice")
    outside = ("the text layers (as for round_trip); free-text contents (descriptions, names, scores are fixed typical values): parsing "
               "of arbitrary text by regular expressions is out of reach of the solver")
    stubs = RoundTrip.stubs[:2] + ["insertion order of annotations: a symbolic index chooses the permutation"]
    task_paths = 120
    KINDS = ["cds_quals", "pfam", "asdomain", "motif", "prepeptide", "module", "generic", "codon_start", "sideloaded"]

    def variants(self, tier):
        out = []
        for kind in self.KINDS:
            for shape in ("s", "j2", "o"):
                for strand in (1, -1):
                    for path in ("genbank", "json"):
                        if kind == "codon_start" and shape == "o":
                            continue    # a partial gene never spans the origin (the shifting code asserts it)
                        if tier == "quick" and ((shape == "j2" and strand == 1) or (shape == "o" and strand == -1)
                                                or (path == "json") != (shape == "j2")):
                            continue
                        out.append({"kind": kind, "gshape": shape, "strand": strand, "path": path})
        return out

    def vars(self, var):
        d = {"n": "int", "perm": "int", "ps": "int", "pe": "int", "qs": "int", "qe": "int"}
        d.update(shape_vars("g", var["gshape"]))
        d.update(shape_vars("a", "s"))
        d.update(shape_vars("b", "s"))
        if var["kind"] == "prepeptide":
            d["k3"] = "int"
        return d

    def pre(self, var, v):
        n = v["n"]
        gparts = model_parts("g", var["gshape"], v)
        c = [shape_pre("g", var["gshape"], v, n), shape_pre("a", "s", v, n), shape_pre("b", "s", v, n),
             L.Sum([p[1] - p[0] for p in gparts]) >= 18,     # room for the five residues of the translation and a stop
             0 <= v["perm"], v["perm"] < 6, 0 <= v["ps"], v["ps"] < v["pe"], 0 <= v["qs"], v["qs"] < v["qe"],
             # annotation locations lie inside the gene's parts (a in the first part, b in the last) and are ordered
             gparts[0][0] <= v["as0"], v["ae0"] <= gparts[0][1], gparts[-1][0] <= v["bs0"], v["be0"] <= gparts[-1][1],
             v["ae0"] - v["as0"] >= 3, v["be0"] - v["bs0"] >= 3]
        if len(gparts) == 1:
            c.append(v["ae0"] <= v["bs0"])
        if var["gshape"] == "j2":
            c.append(v["ge0"] < v["gs1"])       # exons that touch are refused as input
            c.append(L.Or(v["gs0"] > 0, v["ge1"] < n))     # ... as is a split feature covering a whole linear record
        if var["kind"] == "prepeptide":
            # a prepeptide takes its gene's location, whole codons only
            c.append(L.Sum([p[1] - p[0] for p in gparts]) == 3 * v["k3"])
        return L.And(c)

    def build_record(self, var, v):
        from antismash.common.secmet.qualifiers.nrps_pks import _HMMResultLike
        from antismash.common.secmet.features import CDSMotif, Feature, Gene, Module, PFAMDomain, Prepeptide
        from antismash.common.secmet.features.antismash_domain import AntismashDomain
        from antismash.common.secmet.features.source import Source
        from antismash.common.secmet.locations import FeatureLocation
        from antismash.common.secmet.qualifiers import GeneFunction, GOQualifier, SecMetQualifier
        from antismash.detection.nrps_pks_domains.modular_domain import ModularDomain
        import itertools
        n, kind, strand = v["n"], var["kind"], var["strand"]
        rec = mkrecord(n, var["gshape"] == "o")
        rec.id = rec.name = "rec"
        gloc = build("g", var["gshape"], v, strand)
        cds = DummyCDS(location=gloc, locus_tag="gene", translation="MAGIC")
        rec.add_cds_feature(cds)
        aloc, bloc = build("a", "s", v, strand), build("b", "s", v, strand)
        perm = v["perm"]
        order3 = list(itertools.permutations(range(3)))

        def chosen(items):
            """the items in the insertion order selected by the symbolic index"""
            for idx, order in enumerate(order3):
                if perm == idx:
                    return [items[i] for i in order]
            return list(items)

        if kind == "cds_quals":
            funcs = chosen([(GeneFunction.CORE, "rule-based-clusters", "desc one", "T1PKS"),
                            (GeneFunction.ADDITIONAL, "smcogs", "SMCOG1001 (Score: 10; E-value: 1e-05)", None),
                            (GeneFunction.TRANSPORT, "resist", "pump", None)])
            for func, tool, desc, product in funcs:
                cds.gene_functions.add(func, tool, desc, product)
            cds.sec_met = SecMetQualifier(chosen([SecMetQualifier.Domain("PKS_KS", 1e-10, 200.5, 10, "rule-based-clusters"),
                                                  SecMetQualifier.Domain("PKS_AT", 3.5e-7, 99.0, 4, "rule-based-clusters"),
                                                  SecMetQualifier.Domain("adh_short", 0.001, 25.25, 2, "rule-based-clusters")]))
            # protein coordinates here are written with {:d} and read back by a [0-9]+ pattern: fixed values
            hits = chosen([("PKS_KS", 2, 9, ["PKS_KS", "Trans-AT-KS"]), ("PKS_AT", 11, 20, ["PKS_AT"]),
                           ("AMP-binding", 2, 20, ["AMP-binding"])])
            for i, (name, start, end, names) in enumerate(hits):
                hit = _HMMResultLike(name, start, end, 1e-20, 150.5, names)
                cds.nrps_pks.add_domain(hit, "nrpspksdomains_gene_%s.%d" % (name, i))
            cds.nrps_pks.type = "Type I Modular PKS"
        elif kind == "pfam":
            pfam = PFAMDomain(aloc, "a description", FeatureLocation(v["ps"], v["pe"]), identifier="PF00032.12", tool="pfams",
                              locus_tag="gene")
            pfam.domain_id = "pfam_gene_1"
            pfam.gene_ontologies = GOQualifier(dict(chosen([("GO:0016491", "oxidoreductase activity"),
                                                           ("GO:0009055", "electron transfer activity"),
                                                           ("GO:0016020", "membrane")])))
            pfam.score, pfam.evalue, pfam.database, pfam.detection = 20.5, 1e-06, "Pfam-A.hmm", "hmmscan"
            if perm == 5:
                pfam.score, pfam.evalue = 0.0, 0.0       # legitimate values (a perfect e-value underflows to zero)
            rec.add_pfam_domain(pfam)
            second = PFAMDomain(bloc, "other", FeatureLocation(v["qs"], v["qe"]), identifier="PF00005", tool="pfams", locus_tag="gene")
            second.domain_id = "pfam_gene_2"
            rec.add_pfam_domain(second)
        elif kind == "asdomain":
            plain = AntismashDomain(aloc, "sometool", FeatureLocation(v["ps"], v["pe"]), "gene", domain="adh_short")
            plain.domain_id = "sometool_gene_1"
            plain.asf.add("active site one")
            rec.add_antismash_domain(plain)
            modular = ModularDomain(bloc, FeatureLocation(v["qs"], v["qe"]), "gene")
            modular.domain = "PKS_KS"
            modular.domain_id = "nrpspksdomains_gene_PKS_KS.1"
            modular.subtypes = chosen(["Trans-AT-KS", "Beta-OH", "other"])[:2]
            modular.specificity = chosen(["consensus: mal", "PKS signature: mal", "Minowa: mmal"])
            modular.label, modular.translation = "gene_KS1", "MAG"
            modular.evalue, modular.score = (0.0, 0.0) if perm == 5 else (1e-30, 250.75)
            rec.add_antismash_domain(modular)
        elif kind == "motif":
            motif = CDSMotif(aloc, "gene", FeatureLocation(v["ps"], v["pe"]), tool="nrps_pks_domains")
            motif.domain_id, motif.label, motif.evalue, motif.score = "nrpspksmotif_gene_0001", "C1_dual", 1e-05, 12.5
            if perm == 5:
                motif.evalue, motif.score = 0.0, 0.0
            motif.notes.append("a note")
            rec.add_cds_motif(motif)
            # an external CDS_motif only ever arrives through from_biopython
            from Bio.SeqFeature import SeqFeature
            ext = SeqFeature(bloc, type="CDS_motif")
            ext.qualifiers["note"] = ["external motif"]
            ext.qualifiers["label"] = ["thing"]
            rec.add_biopython_feature(ext)
        elif kind == "prepeptide":
            # leader / tail presence: the symbolic index picks one of the four combinations (lengths fixed per combination)
            combos = [("", ""), ("M", ""), ("", "C"), ("MA", "C")]
            leader, tail = combos[0]
            for idx, combo in enumerate(combos):
                if perm == idx:
                    leader, tail = combo
            pre = Prepeptide(gloc, "lanthipeptide", "AG", "gene", "lanthipeptides", "Class-II", 15.5, 3000.25, 3010.75,
                             alternative_weights=[3028.8, 3046.8], leader=leader, tail=tail)
            pre.domain_id = "lanthipeptides_gene_1"
            rec.add_cds_motif(pre)
        elif kind == "module":
            first = ModularDomain(aloc, FeatureLocation(v["ps"], v["pe"]), "gene")
            first.domain, first.domain_id = "PKS_KS", "nrpspksdomains_gene_PKS_KS.1"
            second = ModularDomain(bloc, FeatureLocation(v["qs"], v["qe"]), "gene")
            second.domain, second.domain_id = "PKS_AT", "nrpspksdomains_gene_PKS_AT.1"
            doms = [first, second] if strand == 1 or var["gshape"] != "s" else [second, first]
            for dom in doms:
                rec.add_antismash_domain(dom)
            if var["gshape"] == "s":
                mloc = FeatureLocation(v["as0"], v["be0"], strand)
            else:
                mloc = gloc
            module = Module(mloc, doms, module_type=Module.types.PKS, complete=True, starter=True, iterative=True)
            module.add_monomer("mal", "ohmal")
            module.add_monomer("mmal", "ccmmal")
            rec.add_module(module)
        elif kind == "generic":
            rec.add_gene(Gene(gloc, locus_tag="gene", gene_name="geneA", qualifiers={"old_locus_tag": ["x1"]}))
            misc = Feature(aloc, feature_type="misc_feature")
            misc.notes.extend(chosen(["zeta", "alpha", "mid"]))
            rec.add_feature(misc)
            created = Feature(bloc, feature_type="misc_binding", created_by_antismash=True)
            rec.add_feature(created)
            if var["gshape"] == "j2":
                # GenBank's other compound operator
                from antismash.common.secmet.locations import CompoundLocation
                parts = list(gloc.parts)
                rec.add_feature(Feature(CompoundLocation(parts, operator="order"), feature_type="misc_RNA"))
            rec.add_source(Source(FeatureLocation(0, n, 1), qualifiers={"organism": ["thing"], "mol_type": ["genomic DNA"]}))
        elif kind == "sideloaded":
            from antismash.common.secmet.features.protocluster import SideloadedProtocluster
            from antismash.common.secmet.features.subregion import SideloadedSubRegion
            from antismash.common.secmet.locations import CompoundLocation
            core = build("a", "s", v)
            if var["gshape"] == "o":
                extent = CompoundLocation([FeatureLocation(v["as0"], n, 1), FeatureLocation(0, v["be0"], 1)])
            else:
                extent = FeatureLocation(v["as0"], v["be0"], 1)
            rec.add_protocluster(SideloadedProtocluster(core, extent, "external_tool", "custom_product", neighbourhood_range=v["ps"],
                                                        extra_qualifiers={"score": ["12.5"], "colour": ["red", "blue"]}))
            rec.add_subregion(SideloadedSubRegion(build("b", "s", v), "other_tool", label="marker",
                                                  extra_qualifiers={"evidence": ["x"]}))
            rec.create_candidate_clusters()
            rec.create_regions()
        elif kind == "codon_start":
            # such a gene only ever arrives through from_biopython; its stored location is shifted and shifted back on output
            from Bio.SeqFeature import SeqFeature
            bio = SeqFeature(build("g", var["gshape"], v, strand), type="CDS")
            bio.qualifiers.update({"locus_tag": ["shifted"], "translation": ["MAG"]})
            start = "2"
            for idx in (2, 3):
                if perm == idx:
                    start = str(idx)
            bio.qualifiers["codon_start"] = [start]
            bio.qualifiers["note"] = ["from the input file"]
            rec.add_biopython_feature(bio)
            rec.get_cds_by_name("shifted").notes.append("added by an analysis")    # as smcog_trees / tta do
        return rec

    def run(self, var, v):
        if L.issym(v["n"]):
            from ..core import ENG
            ENG.lazy_tokens = True
        rec = self.build_record(var, v)
        before = internal(rec)
        first_bio, rec2 = self.convert(var, rec)
        first_rows = feature_table(first_bio.features)
        again_rows = feature_table(rec.to_biopython().features)      # e.g. the JSON results and then the GenBank file
        second_bio, rec3 = self.convert(var, rec2)
        return {"first_output": first_rows, "second_output": feature_table(second_bio.features), "written_again": again_rows,
                "before": before,
                "counts": [rec.get_feature_count(), rec2.get_feature_count(), rec3.get_feature_count()],
                "internal": [internal(rec), internal(rec2), internal(rec3)]}

    def post(self, var, v, out):
        if is_raised(out):
            return [("round_trip_does_not_fail", False)]
        return [("first_output_is_a_fixed_point", same_rows(out["first_output"], out["second_output"])),
                ("writing_does_not_change_the_record", L.And(same_rows(out["first_output"], out["written_again"]),
                                                             same_summary({"x": out["before"]}, {"x": out["internal"][0]}))),
                ("reloaded_record_has_the_same_features", L.And(out["counts"][0] == out["counts"][1], out["counts"][1] == out["counts"][2])),
                ("reloaded_record_has_the_same_annotations", L.And(same_summary({"x": out["internal"][0]}, {"x": out["internal"][1]}),
                                                                   same_summary({"x": out["internal"][1]}, {"x": out["internal"][2]})))]


def internal(rec):
    """object-level view of the annotations (not just their rendered qualifiers), keyed by feature kind and name"""
    rows = {}

    def notes(feat):
        return sorted(list(feat._qualifiers.get("note") or []) + list(feat.notes))

    def translation(feat):
        try:
            return str(feat.translation)
        except ValueError:
            return None
    for cds in rec.get_cds_features():
        rows["cds " + cds.get_name()] = (
            canon_loc(cds.location), str(cds.gene_function), [str(f) for f in cds.gene_functions],
            [str(d) for d in cds.sec_met] if cds.sec_met else [], cds.nrps_pks.type,
            [(d.name, cn(d.start), cn(d.end), d.feature_name, list(d.subtypes[:1])) for d in cds.nrps_pks.domains],
            [canon_loc(m.location) for m in cds.modules], notes(cds))
    for dom in rec.get_pfam_domains():
        rows["pfam " + dom.get_name()] = (
            canon_loc(dom.location), cn(dom.protein_location.start), cn(dom.protein_location.end),
            dom.full_identifier, dom.description, sorted(dom.gene_ontologies.ids) if dom.gene_ontologies else [],
            dom.locus_tag, dom.tool, str(dom.score), str(dom.evalue), str(dom.database), str(dom.detection))
    for dom in rec.get_antismash_domains():
        rows["asdomain " + dom.get_name()] = (
            type(dom).__name__, canon_loc(dom.location), cn(dom.protein_location.start),
            cn(dom.protein_location.end), str(dom.domain), dom.tool, dom.locus_tag, list(dom.asf.to_biopython()),
            list(getattr(dom, "subtypes", [])), list(getattr(dom, "specificity", [])), str(dom.label), translation(dom),
            str(dom.evalue), str(dom.score))
    for motif in rec.get_cds_motifs():
        row = [type(motif).__name__, canon_loc(motif.location), str(motif.tool), str(motif.locus_tag), notes(motif)]
        if type(motif).__name__ == "CDSMotif":
            row += [str(motif.evalue), str(motif.score)]
        if hasattr(motif, "core"):
            row += [motif.leader, motif.core, motif.tail, motif.peptide_class, motif.peptide_subclass, str(motif.score),
                    [str(w) for w in motif.alternative_weights]]
        rows["motif " + ("external" if type(motif).__name__ == "ExternalCDSMotif" else motif.get_name())] = tuple(row)
    for i, module in enumerate(rec.get_modules()):
        rows["module %d" % i] = (
            canon_loc(module.location), [d.get_name() for d in module.domains], str(module.module_type),
            module.is_complete(), module.is_starter_module(), module.is_final_module(), module.is_iterative(),
            [list(p) for p in module.monomers], list(module.parent_cds_names))
    for gene in rec.get_genes():
        rows["gene " + gene.get_name()] = (str(gene.gene_name), canon_loc(gene.location), notes(gene))
    for feat in list(rec.get_generics()) + list(rec.get_sources()):
        rows["generic " + feat.type] = (canon_loc(feat.location), notes(feat), feat.created_by_antismash,
                                        getattr(feat.location, "operator", None))
    if rec.get_protoclusters() or rec.get_subregions():
        rows["areas"] = summary(rec)
        rows["area details"] = [(type(a).__name__, a.tool, sorted(getattr(a, "extra_qualifiers", {}).items()))
                                for a in list(rec.get_protoclusters()) + list(rec.get_subregions())]
    return rows


HARNESSES = [RoundTrip(), Annotations()]
