"""C10 - annotated records survive GenBank and JSON round trips unchanged (object level: the text layer is identity)."""
from Bio.SeqRecord import SeqRecord

from antismash.common import serialiser
from antismash.common.secmet import Record
from antismash.common.secmet.features import SubRegion
from antismash.common.secmet.features.protocluster import Protocluster
from antismash.common.secmet.test.helpers import DummyCDS

from .. import logic as L
from .c04 import build, model_parts, shape_pre, shape_vars
from .c12 import num
from .common import Harness, LenSeq, canon_loc, cn, contains_parts, is_raised, mkrecord

REC = "antismash.common.secmet.record:Record."

# reproducible exploration: sets of Protocluster objects iterate by product name (see C05 / C17)
Protocluster.__hash__ = lambda self: hash(self.product)


def qual_value(text):
    """qualifier texts with rendered numbers compare by the numbers they stand for"""
    if isinstance(text, str) and "§" in text:
        return ("num", num(text)) if text.startswith("§") and text.endswith("§") and text.count("§") == 2 else ("text", text)
    return ("text", text)


def feature_table(bio_features):
    rows = []
    for f in bio_features:
        quals = []
        for key in sorted(f.qualifiers):
            val = f.qualifiers[key]
            quals.append((key, [str(x) for x in val] if isinstance(val, list) else str(val)))
        rows.append({"type": f.type, "loc": canon_loc(f.location), "quals": quals})
    return rows


def same_rows(a, b):
    if len(a) != len(b):
        return False
    conds = []
    for x, y in zip(a, b):
        if x["type"] != y["type"] or len(x["loc"]) != len(y["loc"]) or x["quals"] != y["quals"]:
            return False
        conds += [L.And(p[0] == q[0], p[1] == q[1], p[2] == q[2]) for p, q in zip(x["loc"], y["loc"])]
    return L.And(conds)


def summary(rec):
    """structure of a secmet record: areas with locations, numbering and cross references"""
    protos = rec.get_protoclusters()
    cands = rec.get_candidate_clusters()
    subs = rec.get_subregions()
    regions = rec.get_regions()
    return {
        "cds": [(c.get_name(), canon_loc(c.location)) for c in rec.get_cds_features()],
        "protoclusters": [(p.product, canon_loc(p.location), canon_loc(p.core_location), cn(p.cutoff), cn(p.neighbourhood_range),
                           rec.get_protocluster_number(p)) for p in protos],
        "candidates": [(str(c.kind), canon_loc(c.location), [p.product for p in c.protoclusters], rec.get_candidate_cluster_number(c))
                       for c in cands],
        "subregions": [(s.label, canon_loc(s.location), rec.get_subregion_number(s)) for s in subs],
        "regions": [(canon_loc(r.location), [rec.get_candidate_cluster_number(c) for c in r.candidate_clusters],
                     [rec.get_subregion_number(s) for s in r.subregions], rec.get_region_number(r)) for r in regions],
        "gene_regions": [(c.get_name(), rec.get_region_number(c.region) if c.region else 0) for c in rec.get_cds_features()],
    }


def same_summary(a, b):
    conds = []

    def walk(x, y):
        if isinstance(x, (list, tuple)):
            if not isinstance(y, (list, tuple)) or len(x) != len(y):
                conds.append(False)
                return
            for p, q in zip(x, y):
                walk(p, q)
        else:
            conds.append(x == y)
    for key in a:
        walk(a[key], b[key])
    return L.And(conds)


class RoundTrip(Harness):
    pid, name = "C10", "round_trip"
    functions = [REC + "to_biopython", REC + "from_biopython", REC + "add_biopython_feature", REC + "create_candidate_clusters",
                 REC + "create_regions",
                 "antismash.common.secmet.features.protocluster:Protocluster.to_biopython",
                 "antismash.common.secmet.features.protocluster:Protocluster.from_biopython",
                 "antismash.common.secmet.features.candidate_cluster.structures:CandidateCluster.to_biopython",
                 "antismash.common.secmet.features.candidate_cluster.structures:CandidateCluster.from_biopython",
                 "antismash.common.secmet.features.region.structures:Region.to_biopython",
                 "antismash.common.secmet.features.region.structures:Region.from_biopython",
                 "antismash.common.secmet.features.subregion:SubRegion.to_biopython",
                 "antismash.common.secmet.features.cds_feature:CDSFeature.to_biopython",
                 "antismash.common.secmet.features.cds_feature:CDSFeature.from_biopython",
                 "antismash.common.serialiser:record_to_json", "antismash.common.serialiser:record_from_json",
                 "antismash.common.serialiser:feature_to_json", "antismash.common.serialiser:feature_from_json",
                 "antismash.common.secmet.locations:location_from_string"]
    bound = ("a record with one gene, 1-2 protoclusters (core inside extent; optionally origin-spanning; optionally identical coordinates) "
             "with the candidate clusters and regions the real formation code builds from them, optionally a subregion; symbolic "
             "coordinates and record length; both the GenBank path (to_biopython -> from_biopython) and the JSON path (record_to_json -> "
             "record_from_json), each followed by a second conversion (fixed point)")
    outside = ("GenBank text and JSON text (SeqIO writer/parser, json.dumps/loads modelled as identity on the feature tree); domains, "
               "motifs, modules, gene functions; the sequence itself")
    stubs = ["text layers (Bio.SeqIO GenBank writer/parser, json.dumps/loads) are identity on the feature / JSON tree",
             "rendered integers are opaque per-expression tokens without equality forks",
             "Protocluster.__hash__ pinned to hash(product)"]
    task_paths = 120

    def variants(self, tier):
        out = []
        for shapes in (["s"], ["s", "s"], ["oe"], ["same"]):
            for sub in (False, True):
                for path in ("genbank", "json"):
                    if tier == "quick" and sub and shapes in (["s", "s"], ["same"]):
                        continue
                    out.append({"shapes": shapes, "sub": sub, "path": path})
        # three protoclusters (non-consecutive numbering inside a candidate needs three): GenBank path only, cores == extents
        if tier == "thorough":
            out.append({"shapes": ["s", "s", "s"], "sub": False, "path": "genbank", "ordered": True})
        return out

    def vars(self, var):
        d = {"n": "int"}
        for i, sh in enumerate(self.real_shapes(var)):
            d.update(shape_vars("e%d" % i, "o" if sh == "oe" else "s"))
            d.update(shape_vars("c%d" % i, "s"))
        d.update(shape_vars("g", "s"))
        if var["sub"]:
            d.update(shape_vars("r", "s"))
        return d

    def real_shapes(self, var):
        return ["s"] if var["shapes"] == ["same"] else var["shapes"]

    def pre(self, var, v):
        n = v["n"]
        c = [shape_pre("g", "s", v, n), v["ge0"] - v["gs0"] >= 3]
        for i, sh in enumerate(self.real_shapes(var)):
            c.append(shape_pre("e%d" % i, "o" if sh == "oe" else "s", v, n))
            c.append(shape_pre("c%d" % i, "s", v, n))
            c.append(contains_parts(model_parts("e%d" % i, "o" if sh == "oe" else "s", v), model_parts("c%d" % i, "s", v)))
        if var["sub"]:
            c.append(shape_pre("r", "s", v, n))
        if var.get("ordered"):
            c.append(L.And(v["e0s0"] <= v["e1s0"], v["e1s0"] <= v["e2s0"]))   # symmetry: supplied by start
        return L.And(c)

    def build_record(self, var, v):
        n = v["n"]
        circ = "oe" in var["shapes"]
        rec = mkrecord(n, circ)
        rec.id = rec.name = "rec"
        rec.add_cds_feature(DummyCDS(location=build("g", "s", v), locus_tag="gene", translation="M"))
        shapes = self.real_shapes(var)
        count = 2 if var["shapes"] == ["same"] else len(shapes)
        for i in range(count):
            j = 0 if var["shapes"] == ["same"] else i
            sh = shapes[j]
            rec.add_protocluster(Protocluster(build("c%d" % j, "s", v), build("e%d" % j, "o" if sh == "oe" else "s", v), tool="test",
                                              product="p%d" % i, cutoff=20, neighbourhood_range=5, detection_rule="rule%d" % i))
        rec.create_candidate_clusters()
        if var["sub"]:
            rec.add_subregion(SubRegion(build("r", "s", v), tool="test", label="sub"))
        rec.create_regions()
        return rec

    def convert(self, var, rec):
        bio = rec.to_biopython()
        if var["path"] == "json":
            data = serialiser.record_to_json(bio)
            # json.dumps / json.loads: identity on the tree (text layer outside the claim); the sequence is a length carrier
            length = bio.seq._n
            orig = serialiser.sequence_from_json
            serialiser.sequence_from_json = lambda _data: LenSeq(length)
            try:
                again = serialiser.record_from_json(dict(data), "bacteria")
            finally:
                serialiser.sequence_from_json = orig
        else:
            # SeqIO.write / SeqIO.parse: identity on the feature table (text layer outside the claim)
            copy = SeqRecord(bio.seq, id=bio.id, name=bio.name, description=bio.description, features=list(bio.features),
                             annotations=dict(bio.annotations))
            again = Record.from_biopython(copy, "bacteria")
        return bio, again

    def run(self, var, v):
        if L.issym(v["n"]):
            from ..core import ENG
            ENG.lazy_tokens = True      # numbers rendered into qualifiers are only ever parsed back, never compared as text
        rec = self.build_record(var, v)
        first_bio, rec2 = self.convert(var, rec)
        first_rows = feature_table(first_bio.features)
        second_bio, rec3 = self.convert(var, rec2)
        return {"original": summary(rec), "reloaded": summary(rec2), "first_output": first_rows,
                "second_output": feature_table(second_bio.features), "third": summary(rec3)}

    def post(self, var, v, out):
        if is_raised(out):
            return [("round_trip_does_not_fail", False)]
        return [("reloaded_record_has_the_same_structure", same_summary(out["original"], out["reloaded"])),
                ("first_output_is_a_fixed_point", same_rows(out["first_output"], out["second_output"])),
                ("second_reload_equals_first", same_summary(out["reloaded"], out["third"]))]


HARNESSES = [RoundTrip()]
