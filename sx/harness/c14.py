"""C14 - NRPS/PKS modules partition a gene's domains in order and obey the module rules."""
import itertools

from antismash.common.hmmscan_refinement import HMMResult
from antismash.common.secmet.locations import FeatureLocation
from antismash.common.secmet.test.helpers import DummyCDS
from antismash.detection.nrps_pks_domains import module_identification as mi

from .. import logic as L
from .common import Harness, is_raised

MI = "antismash.detection.nrps_pks_domains.module_identification:"
NAMES = sorted(set().union(*[set(v) for v in mi.CLASSIFICATIONS.values()]))
SUBTYPES = [None, "Trans-AT-KS", "Iterative-KS"]
_wrapped = False


def wrap_constants():
    """re-wrap the module's constant name sets so that membership tests on symbolic names go through the solver"""
    global _wrapped
    if _wrapped:
        return
    from ..core import SymSet
    for key in ("ADENYLATIONS", "ACYLTRANSFERASES", "CONDENSATIONS", "ENDS", "KETOSYNTHASES", "MODIFIERS", "CARRIER_PROTEINS",
                "ALTERNATE_STARTERS", "NON_MODULE", "OTHER", "SPECIAL", "FUSED_STARTERS"):
        setattr(mi, key, SymSet(getattr(mi, key)))
    mi.CLASSIFICATIONS = {"A": mi.ADENYLATIONS, "AT": mi.ACYLTRANSFERASES, "C": mi.CONDENSATIONS, "S": mi.ALTERNATE_STARTERS,
                          "E": mi.ENDS, "KS": mi.KETOSYNTHASES, "+": mi.MODIFIERS, "CP": mi.CARRIER_PROTEINS,
                          "!": mi.SPECIAL, ".": mi.OTHER, "ignore": mi.NON_MODULE}
    _wrapped = True


def make_domains(k, v, prefix="d"):
    doms = []
    for i in range(k):
        idx, sub = v["%s%d" % (prefix, i)], v["%ss%d" % (prefix, i)]
        if L.issym(idx):
            from ..core import SymName
            wrap_constants()
            name = SymName(idx, NAMES)
        else:
            name = NAMES[idx]
        internal = None
        if sub == 1:
            internal = [HMMResult("Trans-AT-KS", 10 * i, 10 * i + 5, 1e-5, 10.)]
        elif sub == 2:
            internal = [HMMResult("Iterative-KS", 10 * i, 10 * i + 5, 1e-5, 10.)]
        doms.append(HMMResult(name, 10 * i, 10 * i + 5, 1e-5, 10., internal_hits=internal))
    return doms


def T(x):
    """force a (possibly symbolic) boolean: forks where the answer depends on the symbolic names"""
    return True if x else False


def describe(module, doms):
    """the documented layout, evaluated lazily on the real components of one module: a name is only inspected where the
    rule in question depends on it, so the paths stay the behaviour classes of the code plus those of the oracle"""
    comps = list(module.components)
    idxs = [[j for j, d in enumerate(doms) if d is c.domain][0] for c in comps]
    f = [c for c in comps if c.classification not in ("ignore", "!")]
    cls = [c.classification for c in f]

    def is_cal(c):
        return c.classification == "S" and T(c.label == "CAL_domain")
    pure_starters = [i for i, c in enumerate(f) if cls[i] in ("C", "KS") or (cls[i] == "S" and not is_cal(c))]
    loaders = [i for i, c in enumerate(f) if cls[i] in ("A", "AT") or is_cal(c)]
    cps = [i for i, c in enumerate(f) if cls[i] == "CP"]
    ends = [i for i, c in enumerate(f) if cls[i] == "E"]
    mods = [i for i, c in enumerate(f) if cls[i] == "+"]
    trans_at = module.is_trans_at()
    ok = {}
    ok["at_most_one_starter"] = len(pure_starters) <= 1 and (not pure_starters or pure_starters[0] == 0)
    ok["at_most_one_loader"] = len(loaders) <= 1
    double_cp = False
    if len(cps) == 2 and cps[1] == cps[0] + 1 and len(f) > cps[1] + 2:
        double_cp = T(f[cps[1] + 1].label == "LPG_synthase_C") and T(f[cps[1] + 2].label == "Beta_elim_lyase")
    ok["at_most_one_carrier_protein"] = len(cps) <= 1 or double_cp
    ok["at_most_one_end_and_it_is_last"] = len(ends) <= 1 and (not ends or ends[0] == len(f) - 1)
    late = [i for i in mods if cps and i > cps[0]]
    if late:
        allowed = double_cp and all(i in (cps[1] + 1, cps[1] + 2) for i in late)
        ok["modifications_before_carrier_protein"] = allowed or (trans_at and all(T(f[i].label == "PKS_KR") for i in late))
    else:
        ok["modifications_before_carrier_protein"] = True
    mixed = False
    if pure_starters and pure_starters[0] == 0 and loaders:
        st, ld = f[0], f[loaders[0]]
        mixed = (T(st.is_pks_specific()) and T(ld.is_nrps_specific())) or (T(st.is_nrps_specific()) and T(ld.is_pks_specific()))
    ok["no_nrps_pks_mix"] = not mixed
    has_starter = bool(pure_starters) or bool(loaders)
    starter_is_loader = not pure_starters and bool(loaders)
    blocked = has_starter and starter_is_loader and not module._first_in_cds
    complete = (not blocked) and ((has_starter and bool(loaders) and bool(cps)) or bool(trans_at and cps))
    ok["complete_iff_starter_loader_carrier"] = (module.is_complete() == complete)
    return {"idxs": idxs, "rules": ok}


class BuildModules(Harness):
    pid, name = "C14", "build_modules"
    functions = [MI + "build_modules_for_cds", MI + "Module.add_component", MI + "Module.ensure_suitable", MI + "Module.is_complete",
                 MI + "Module.is_trans_at", MI + "Module.to_json", MI + "Module.from_json", MI + "Component", MI + "classify"]
    bound = ("domain sequences of length <= 3 (quick) / 4 (thorough); every domain name is symbolic over the full alphabet of "
             "CLASSIFICATIONS (%d names), KS subtype symbolic over {none, Trans-AT-KS, Iterative-KS}" % len(NAMES))
    outside = "sequences longer than 4; get_monomer strings; domain coordinates (fixed, increasing)"
    stubs = ["the module's constant name sets are re-wrapped (SymSet) so that `name in SET` on a symbolic name is decided by the solver"]
    task_paths = 200

    def variants(self, tier):
        out = [{"k": k} for k in range(1, (3 if tier == "quick" else 4) + 1)]
        if tier == "quick":
            # one length-4 class in the quick tier: sequences beginning with two carrier proteins (double-transporter look-ahead)
            out.append({"k": 4, "cp_first": True})
        return out

    def vars(self, var):
        d = {}
        for i in range(var["k"]):
            d["d%d" % i] = "int"
            d["ds%d" % i] = "int"
        return d

    def pre(self, var, v):
        ks = NAMES.index("PKS_KS")
        extra = []
        if var.get("cp_first"):
            cps = [NAMES.index(nm) for nm in sorted(mi.CARRIER_PROTEINS)]
            extra = [L.Or([v["d%d" % i] == c for c in cps]) for i in (0, 1)]
        return L.And(extra, [L.And(0 <= v["d%d" % i], v["d%d" % i] < len(NAMES), 0 <= v["ds%d" % i], v["ds%d" % i] <= 2,
                            L.Or(v["ds%d" % i] == 0, v["d%d" % i] == ks))   # subtypes only exist for ketosynthases
                      for i in range(var["k"])])

    def run(self, var, v):
        k = var["k"]
        doms = make_domains(k, v)
        modules = mi.build_modules_for_cds(doms, "cds")
        out = {"modules": [describe(m, doms) for m in modules], "ignored": [], "reload": []}
        for i, d in enumerate(doms):
            out["ignored"].append(mi.classify(d.hit_id) == "ignore")
        for m in modules:
            try:
                again = mi.Module.from_json(m.to_json())
                same = (len(again.components) == len(m.components)
                        and all((True if a.label == b.label else False) for a, b in zip(again.components, m.components))
                        and [c.subtype for c in again.components] == [c.subtype for c in m.components]
                        and again.is_complete() == m.is_complete() and again._first_in_cds == m._first_in_cds)
                out["reload"].append("same" if same else "different")
            except mi.IncompatibleComponentError:
                out["reload"].append("refused")
        return out

    def post(self, var, v, out):
        if is_raised(out):
            return [("construction_never_fails", False)]
        k = var["k"]
        cl = []
        flat = [i for m in out["modules"] for i in m["idxs"]]
        want = [i for i in range(k) if not out["ignored"][i]]
        cl.append(("domains_partitioned_in_order_without_loss", flat == want))
        cl.append(("no_empty_module", all(m["idxs"] for m in out["modules"])))
        for m in out["modules"]:
            for name, ok in m["rules"].items():
                cl.append((name, ok))
        cl.append(("module_rebuilt_from_saved_form_is_identical", all(r == "same" for r in out["reload"])))
        return cl


class CombineModules(Harness):
    pid, name = "C14", "combine_modules"
    functions = [MI + "combine_modules", MI + "build_modules_for_cds", MI + "Module.add_component", MI + "Module.is_complete"]
    bound = ("two adjacent genes with (2,1), (1,2) or (2,2) domains (quick: (2,1) and (1,2)), every domain name symbolic over the full "
             "alphabet, KS subtypes symbolic, both strand combinations")
    outside = "more domains per gene; more than two genes"
    stubs = BuildModules.stubs
    task_paths = 200

    def variants(self, tier):
        sizes = [(2, 1), (1, 2)] if tier == "quick" else [(2, 1), (1, 2), (2, 2), (1, 1), (3, 1)]
        return [{"sizes": list(sz), "strands": list(st)} for sz in sizes for st in ((1, 1), (1, -1))]

    def vars(self, var):
        d = {}
        for g, size in enumerate(var["sizes"]):
            for i in range(size):
                d["p%d%d" % (g, i)] = "int"
                d["p%ds%d" % (g, i)] = "int"
        return d

    def pre(self, var, v):
        ks = NAMES.index("PKS_KS")
        c = []
        for g, size in enumerate(var["sizes"]):
            for i in range(size):
                n, sub = v["p%d%d" % (g, i)], v["p%ds%d" % (g, i)]
                c.append(L.And(0 <= n, n < len(NAMES), 0 <= sub, sub <= 2, L.Or(sub == 0, n == ks)))
        return L.And(c)

    def run(self, var, v):
        infos, doms = [], []
        for g, size in enumerate(var["sizes"]):
            vv = {}
            for i in range(size):
                vv["d%d" % i] = v["p%d%d" % (g, i)]
                vv["ds%d" % i] = v["p%ds%d" % (g, i)]
            ds = make_domains(size, vv)
            doms.append(ds)
            cds = DummyCDS(location=FeatureLocation(100 * g, 100 * g + 90, var["strands"][g]), locus_tag="g%d" % g, translation="A")
            infos.append(mi.CDSModuleInfo(cds, mi.build_modules_for_cds(ds, "g%d" % g)))
        previous, current = infos

        def ident(module):
            return [[(g, j) for g in range(2) for j, d in enumerate(doms[g]) if d is c.domain][0] for c in module.components]
        before = [[ident(m) for m in previous.modules], [ident(m) for m in current.modules]]
        head_complete = previous.modules[-1].is_complete() if previous.modules else None
        tail_complete = current.modules[0].is_complete() if current.modules else None
        merged = mi.combine_modules(current, previous)
        after = [[ident(m) for m in previous.modules], [ident(m) for m in current.modules]]
        rules = describe(merged, doms[0] + doms[1])["rules"] if merged is not None else None
        return {"before": before, "after": after, "merged": ident(merged) if merged is not None else None, "rules": rules,
                "merged_complete": merged.is_complete() if merged is not None else None,
                "head_complete": head_complete, "tail_complete": tail_complete}

    def post(self, var, v, out):
        if is_raised(out):
            return [("no_raise", False)]
        flat_before = [c for gene in out["before"] for m in gene for c in m]
        flat_after = [c for gene in out["after"] for m in gene for c in m]
        cl = [("all_domains_kept_in_order", flat_before == flat_after)]
        if out["merged"] is None:
            cl.append(("nothing_changed_without_merge", out["before"] == out["after"]))
        else:
            cl.append(("merge_only_on_same_strand", var["strands"][0] == var["strands"][1]))
            cl.append(("merge_only_if_result_complete", out["merged_complete"] is True))
            cl.append(("merge_only_of_an_incomplete_trailing_module", out["head_complete"] is False))
            cl.append(("merged_module_is_head_then_tail", out["merged"][:len(out["before"][0][-1])] == out["before"][0][-1]
                       and out["after"][0][-1] == out["merged"]))
            for name, ok in out["rules"].items():
                cl.append(("merged_module_respects_" + name, ok))
        return cl


HARNESSES = [BuildModules(), CombineModules()]
