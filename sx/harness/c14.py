"""C14 - NRPS/PKS modules partition a gene's domains in order and obey the module rules."""
import itertools

from antismash.common.hmmscan_refinement import HMMResult
from antismash.common.secmet.locations import FeatureLocation
from antismash.common.secmet.test.helpers import DummyCDS
from antismash.detection.nrps_pks_domains import module_identification as mi

from .. import logic as L
from .common import Harness, is_raised

MI = "antismash.detection.nrps_pks_domains.module_identification:"
NAMES = sorted(set().union(*[set(v) for v in mi.CLASSIFICATIONS.values()]))
SUBTYPES = [None, "Trans-AT-KS", "Iterative-KS"]
_wrapped = False


def wrap_constants():
    """re-wrap the module's constant name sets so that membership tests on symbolic names go through the solver"""
    global _wrapped
    if _wrapped:
        return
    from ..core import SymSet
    for key in ("ADENYLATIONS", "ACYLTRANSFERASES", "CONDENSATIONS", "ENDS", "KETOSYNTHASES", "MODIFIERS", "CARRIER_PROTEINS",
                "ALTERNATE_STARTERS", "NON_MODULE", "OTHER", "SPECIAL", "FUSED_STARTERS"):
        setattr(mi, key, SymSet(getattr(mi, key)))
    mi.CLASSIFICATIONS = {"A": mi.ADENYLATIONS, "AT": mi.ACYLTRANSFERASES, "C": mi.CONDENSATIONS, "S": mi.ALTERNATE_STARTERS,
                          "E": mi.ENDS, "KS": mi.KETOSYNTHASES, "+": mi.MODIFIERS, "CP": mi.CARRIER_PROTEINS,
                          "!": mi.SPECIAL, ".": mi.OTHER, "ignore": mi.NON_MODULE}
    _wrapped = True


def make_domains(k, v, prefix="d"):
    doms = []
    for i in range(k):
        idx, sub = v["%s%d" % (prefix, i)], v["%ss%d" % (prefix, i)]
        if L.issym(idx):
            from ..core import SymName
            wrap_constants()
            name = SymName(idx, NAMES)
        else:
            name = NAMES[idx]
        internal = None
        if sub == 1:
            internal = [HMMResult("Trans-AT-KS", 10 * i, 10 * i + 5, 1e-5, 10.)]
        elif sub == 2:
            internal = [HMMResult("Iterative-KS", 10 * i, 10 * i + 5, 1e-5, 10.)]
        doms.append(HMMResult(name, 10 * i, 10 * i + 5, 1e-5, 10., internal_hits=internal))
    return doms


def T(x):
    """force a (possibly symbolic) boolean: forks where the answer depends on the symbolic names"""
    return True if x else False


def describe(module, doms):
    """the documented layout, evaluated lazily on the real components of one module: a name is only inspected where the
    rule in question depends on it, so the paths stay the behaviour classes of the code plus those of the oracle"""
    comps = list(module.components)
    idxs = [[j for j, d in enumerate(doms) if d is c.domain][0] for c in comps]
    f = [c for c in comps if c.classification not in ("ignore", "!")]
    cls = [c.classification for c in f]

    def is_cal(c):
        return c.classification == "S" and T(c.label == "CAL_domain")
    pure_starters = [i for i, c in enumerate(f) if cls[i] in ("C", "KS") or (cls[i] == "S" and not is_cal(c))]
    loaders = [i for i, c in enumerate(f) if cls[i] in ("A", "AT") or is_cal(c)]
    cps = [i for i, c in enumerate(f) if cls[i] == "CP"]
    ends = [i for i, c in enumerate(f) if cls[i] == "E"]
    mods = [i for i, c in enumerate(f) if cls[i] == "+"]
    trans_at = module.is_trans_at()
    ok = {}
    ok["at_most_one_starter"] = len(pure_starters) <= 1 and (not pure_starters or pure_starters[0] == 0)
    ok["at_most_one_loader"] = len(loaders) <= 1
    double_cp = False
    if len(cps) == 2 and cps[1] == cps[0] + 1 and len(f) > cps[1] + 2:
        double_cp = T(f[cps[1] + 1].label == "LPG_synthase_C") and T(f[cps[1] + 2].label == "Beta_elim_lyase")
    ok["at_most_one_carrier_protein"] = len(cps) <= 1 or double_cp
    ok["at_most_one_end_and_it_is_last"] = len(ends) <= 1 and (not ends or ends[0] == len(f) - 1)
    late = [i for i in mods if cps and i > cps[0]]
    if late:
        allowed = double_cp and all(i in (cps[1] + 1, cps[1] + 2) for i in late)
        ok["modifications_before_carrier_protein"] = allowed or (trans_at and all(T(f[i].label == "PKS_KR") for i in late))
    else:
        ok["modifications_before_carrier_protein"] = True
    mixed = False
    if pure_starters and pure_starters[0] == 0 and loaders:
        st, ld = f[0], f[loaders[0]]
        mixed = (T(st.is_pks_specific()) and T(ld.is_nrps_specific())) or (T(st.is_nrps_specific()) and T(ld.is_pks_specific()))
    ok["no_nrps_pks_mix"] = not mixed
    has_starter = bool(pure_starters) or bool(loaders)
    starter_is_loader = not pure_starters and bool(loaders)
    blocked = has_starter and starter_is_loader and not module._first_in_cds
    complete = (not blocked) and ((has_starter and bool(loaders) and bool(cps)) or bool(trans_at and cps))
    ok["complete_iff_starter_loader_carrier"] = (module.is_complete() == complete)
    return {"idxs": idxs, "rules": ok}


class BuildModules(Harness):
    pid, name = "C14", "build_modules"
    functions = [MI + "build_modules_for_cds", MI + "Module.add_component", MI + "Module.ensure_suitable", MI + "Module.is_complete",
                 MI + "Module.is_trans_at", MI + "Module.to_json", MI + "Module.from_json", MI + "Component", MI + "classify"]
    bound = ("domain sequences of length <= 3 (quick) / 4 (thorough); every domain name is symbolic over the full alphabet of "
             "CLASSIFICATIONS (%d names), KS subtype symbolic over {none, Trans-AT-KS, Iterative-KS}" % len(NAMES))
    outside = "sequences longer than 4; get_monomer strings; domain coordinates (fixed, increasing)"
    stubs = ["the module's constant name sets are re-wrapped (SymSet) so that `name in SET` on a symbolic name is decided by the solver"]
    task_paths = 200

    def variants(self, tier):
        out = [{"k": k} for k in range(1, (3 if tier == "quick" else 4) + 1)]
        if tier == "quick":
            # one length-4 class in the quick tier: sequences beginning with two carrier proteins (double-transporter look-ahead)
            out.append({"k": 4, "cp_first": True})
        return out

    def vars(self, var):
        d = {}
        for i in range(var["k"]):
            d["d%d" % i] = "int"
            d["ds%d" % i] = "int"
        return d

    def pre(self, var, v):
        ks = NAMES.index("PKS_KS")
        extra = []
        if var.get("cp_first"):
            cps = [NAMES.index(nm) for nm in sorted(mi.CARRIER_PROTEINS)]
            extra = [L.Or([v["d%d" % i] == c for c in cps]) for i in (0, 1)]
        return L.And(extra, [L.And(0 <= v["d%d" % i], v["d%d" % i] < len(NAMES), 0 <= v["ds%d" % i], v["ds%d" % i] <= 2,
                            L.Or(v["ds%d" % i] == 0, v["d%d" % i] == ks))   # subtypes only exist for ketosynthases
                      for i in range(var["k"])])

    def run(self, var, v):
        k = var["k"]
        doms = make_domains(k, v)
        modules = mi.build_modules_for_cds(doms, "cds")
        out = {"modules": [describe(m, doms) for m in modules], "ignored": [], "reload": []}
        for i, d in enumerate(doms):
            out["ignored"].append(mi.classify(d.hit_id) == "ignore")
        for m in modules:
            try:
                again = mi.Module.from_json(m.to_json())
                same = (len(again.components) == len(m.components)
                        and all((True if a.label == b.label else False) for a, b in zip(again.components, m.components))
                        and [c.subtype for c in again.components] == [c.subtype for c in m.components]
                        and again.is_complete() == m.is_complete() and again._first_in_cds == m._first_in_cds)
                out["reload"].append("same" if same else "different")
            except mi.IncompatibleComponentError:
                out["reload"].append("refused")
        return out

    def post(self, var, v, out):
        if is_raised(out):
            return [("construction_never_fails", False)]
        k = var["k"]
        cl = []
        flat = [i for m in out["modules"] for i in m["idxs"]]
        want = [i for i in range(k) if not out["ignored"][i]]
        cl.append(("domains_partitioned_in_order_without_loss", flat == want))
        cl.append(("no_empty_module", all(m["idxs"] for m in out["modules"])))
        for m in out["modules"]:
            for name, ok in m["rules"].items():
                cl.append((name, ok))
        cl.append(("module_rebuilt_from_saved_form_is_identical", all(r == "same" for r in out["reload"])))
        return cl


class CombineModules(Harness):
    pid, name = "C14", "combine_modules"
    functions = [MI + "combine_modules", MI + "build_modules_for_cds", MI + "Module.add_component", MI + "Module.is_complete"]
    bound = ("two adjacent genes with (2,1), (1,2) or (2,2) domains (quick: (2,1) and (1,2)), every domain name symbolic over the full "
             "alphabet, KS subtypes symbolic, both strand combinations")
    outside = "more than two domains per gene; more than two genes"
    stubs = BuildModules.stubs
    task_paths = 200

    def variants(self, tier):
        sizes = [(2, 1), (1, 2)] if tier == "quick" else [(2, 1), (1, 2), (2, 2), (1, 1)]
        return [{"sizes": list(sz), "strands": list(st)} for sz in sizes for st in ((1, 1), (1, -1))]

    def vars(self, var):
        d = {}
        for g, size in enumerate(var["sizes"]):
            for i in range(size):
                d["p%d%d" % (g, i)] = "int"
                d["p%ds%d" % (g, i)] = "int"
        return d

    def pre(self, var, v):
        ks = NAMES.index("PKS_KS")
        c = []
        for g, size in enumerate(var["sizes"]):
            for i in range(size):
                n, sub = v["p%d%d" % (g, i)], v["p%ds%d" % (g, i)]
                c.append(L.And(0 <= n, n < len(NAMES), 0 <= sub, sub <= 2, L.Or(sub == 0, n == ks)))
        return L.And(c)

    def run(self, var, v):
        infos, doms = [], []
        for g, size in enumerate(var["sizes"]):
            vv = {}
            for i in range(size):
                vv["d%d" % i] = v["p%d%d" % (g, i)]
                vv["ds%d" % i] = v["p%ds%d" % (g, i)]
            ds = make_domains(size, vv)
            doms.append(ds)
            cds = DummyCDS(location=FeatureLocation(100 * g, 100 * g + 90, var["strands"][g]), locus_tag="g%d" % g, translation="A")
            infos.append(mi.CDSModuleInfo(cds, mi.build_modules_for_cds(ds, "g%d" % g)))
        previous, current = infos

        def ident(module):
            return [[(g, j) for g in range(2) for j, d in enumerate(doms[g]) if d is c.domain][0] for c in module.components]
        before = [[ident(m) for m in previous.modules], [ident(m) for m in current.modules]]
        head_complete = previous.modules[-1].is_complete() if previous.modules else None
        tail_complete = current.modules[0].is_complete() if current.modules else None
        merged = mi.combine_modules(current, previous)
        after = [[ident(m) for m in previous.modules], [ident(m) for m in current.modules]]
        rules = describe(merged, doms[0] + doms[1])["rules"] if merged is not None else None
        return {"before": before, "after": after, "merged": ident(merged) if merged is not None else None, "rules": rules,
                "merged_complete": merged.is_complete() if merged is not None else None,
                "head_complete": head_complete, "tail_complete": tail_complete}

    def post(self, var, v, out):
        if is_raised(out):
            return [("no_raise", False)]
        flat_before = [c for gene in out["before"] for m in gene for c in m]
        flat_after = [c for gene in out["after"] for m in gene for c in m]
        cl = [("all_domains_kept_in_order", flat_before == flat_after)]
        if out["merged"] is None:
            cl.append(("nothing_changed_without_merge", out["before"] == out["after"]))
        else:
            cl.append(("merge_only_on_same_strand", var["strands"][0] == var["strands"][1]))
            cl.append(("merge_only_if_result_complete", out["merged_complete"] is True))
            cl.append(("merge_only_of_an_incomplete_trailing_module", out["head_complete"] is False))
            cl.append(("merged_module_is_head_then_tail", out["merged"][:len(out["before"][0][-1])] == out["before"][0][-1]
                       and out["after"][0][-1] == out["merged"]))
            for name, ok in out["rules"].items():
                cl.append(("merged_module_respects_" + name, ok))
        return cl


def _idx(names):
    return [NAMES.index(nm) for nm in sorted(names) if nm in NAMES]


class ModuleStep(Harness):
    """one inductive step of module construction from an ARBITRARY module state: the state a module can be in is described by its
    slots (starter, loader, modifications, carrier protein, end, others, pending look-ahead acceptance, first-in-gene flag); each
    occupied slot holds a component with a symbolic name of the right class. One more component with a symbolic name over the
    whole alphabet (and a symbolic look-ahead) is added. Either it is refused and nothing changes, or it lands in exactly its
    slot and was allowed there by the documented layout; completeness is the documented function of the slots. Sequences of
    any length are sequences of such steps (build_modules_for_cds itself - opening a new module at a starter or after a
    refusal - is covered by build_modules on short sequences)."""
    pid, name = "C14", "module_step"
    functions = [MI + "Module.add_component", MI + "Module.ensure_suitable", MI + "Module.is_complete", MI + "Module.is_trans_at",
                 MI + "Module.is_pks", MI + "Component", MI + "classify"]
    bound = ("any module state given by its slots: starter none / pure starter / loader acting as starter, separate loader, 0-1 "
             "modification, carrier protein, end, 0-1 other or special component, first-in-gene flag symbolic, no pending look-ahead "
             "or the two pending states of the double carrier protein case; every occupied slot has a symbolic name of its class, "
             "KS subtype symbolic; the added component and two look-ahead components have symbolic names over the full alphabet")
    outside = ("more than one modification / other component in the state (only their presence and the Trans-AT docking domain among "
               "the others are ever read); that the state invariants used as preconditions (a loader never without a starter, no "
               "NRPS/PKS mix between starter and loader, a pending look-ahead only right after the second carrier protein) are "
               "established by construction from the empty module (they are the conclusions of this same step)")
    stubs = BuildModules.stubs + ["look-ahead components are name carriers (only .domain.hit_id is read from them)"]
    task_paths = 200

    CLASSES = None

    @classmethod
    def classes(cls):
        if cls.CLASSES is None:
            pure = (set(mi.CONDENSATIONS) | set(mi.KETOSYNTHASES) | set(mi.ALTERNATE_STARTERS)) - {"CAL_domain"}
            loaders = set(mi.ADENYLATIONS) | set(mi.ACYLTRANSFERASES) | {"CAL_domain"}
            cls.CLASSES = {"pure": _idx(pure), "loader": _idx(loaders), "mod": _idx(mi.MODIFIERS), "cp": _idx(mi.CARRIER_PROTEINS),
                           "end": _idx(mi.ENDS), "other": _idx(set(mi.OTHER) | set(mi.SPECIAL)), "ignore": _idx(mi.NON_MODULE),
                           "special": _idx(mi.SPECIAL),
                           "pks": [i for i, nm in enumerate(NAMES) if nm.startswith("PKS") or nm in mi.ACYLTRANSFERASES
                                   or nm in mi.KETOSYNTHASES],
                           "nrps": _idx(set(mi.ADENYLATIONS) | set(mi.CONDENSATIONS))}
        return cls.CLASSES

    def variants(self, tier):
        out = []
        for st in ("none", "pure", "loader"):
            for ld in ((False, True) if st == "pure" else (False,)):
                for mod in (False, True):
                    for cp in (False, True):
                        for oth in (False, True):
                            out.append({"st": st, "ld": ld, "mod": mod, "cp": cp, "end": False, "oth": oth, "accept": 0})
        # a finished module; the two pending states of the double carrier protein look-ahead
        out.append({"st": "pure", "ld": True, "mod": False, "cp": True, "end": True, "oth": False, "accept": 0})
        out.append({"st": "none", "ld": False, "mod": False, "cp": True, "end": True, "oth": True, "accept": 0})
        out.append({"st": "pure", "ld": True, "mod": False, "cp": True, "end": False, "oth": "cp2", "accept": 2})
        out.append({"st": "pure", "ld": True, "mod": "lpg", "cp": True, "end": False, "oth": "cp2", "accept": 1})
        return out

    def vars(self, var):
        d = {"first": "bool", "c": "int", "cs": "int", "l0": "int", "l1": "int"}
        for key, present in (("st", var["st"] != "none"), ("ld", var["ld"]), ("m0", var["mod"]), ("cp", var["cp"]), ("en", var["end"]),
                             ("o0", var["oth"])):
            if present:
                d[key] = "int"
        if var["st"] != "none":
            d["sts"] = "int"
        return d

    def member(self, x, cls):
        return L.Or([x == i for i in self.classes()[cls]])

    def pre(self, var, v):
        ks = NAMES.index("PKS_KS")
        c = [0 <= v["c"], v["c"] < len(NAMES), 0 <= v["cs"], v["cs"] <= 2, L.Or(v["cs"] == 0, v["c"] == ks),
             0 <= v["l0"], v["l0"] < len(NAMES), 0 <= v["l1"], v["l1"] < len(NAMES)]
        if var["st"] != "none":
            c += [self.member(v["st"], "pure" if var["st"] == "pure" else "loader"), 0 <= v["sts"], v["sts"] <= 2,
                  L.Or(v["sts"] == 0, v["st"] == ks)]
        if var["ld"]:
            c.append(self.member(v["ld"], "loader"))
            # established by the step that added the loader: no NRPS / PKS mix with the starter
            c.append(L.Not(L.Or(L.And(self.member(v["st"], "pks"), self.member(v["ld"], "nrps")),
                                L.And(self.member(v["st"], "nrps"), self.member(v["ld"], "pks")))))
        if var["mod"]:
            c.append(v["m0"] == NAMES.index("LPG_synthase_C") if var["mod"] == "lpg" else self.member(v["m0"], "mod"))
        if var["cp"]:
            c.append(self.member(v["cp"], "cp"))
        if var["end"]:
            c.append(self.member(v["en"], "end"))
        if var["oth"]:
            c.append(self.member(v["o0"], "cp" if var["oth"] == "cp2" else "other"))
        # a pending look-ahead acceptance was granted on a truthful look-ahead: the announced components do follow
        if var["accept"] == 2:
            c += [v["c"] == NAMES.index("LPG_synthase_C"), v["l0"] == NAMES.index("Beta_elim_lyase")]
        if var["accept"] == 1:
            c.append(v["c"] == NAMES.index("Beta_elim_lyase"))
        return L.And(c)

    def sym_name(self, idx):
        if L.issym(idx):
            from ..core import SymName
            return SymName(idx, NAMES)
        return NAMES[idx]

    def component(self, v, key, sub=0):
        name = self.sym_name(v[key])
        internal = None
        if sub == 1:
            internal = [HMMResult("Trans-AT-KS", 0, 5, 1e-5, 10.)]
        elif sub == 2:
            internal = [HMMResult("Iterative-KS", 0, 5, 1e-5, 10.)]
        return mi.Component(HMMResult(name, 0, 5, 1e-5, 10., internal_hits=internal), "cds")

    def run(self, var, v):
        if L.issym(v["c"]):
            wrap_constants()
        module = mi.Module(first_in_cds=True if v["first"] else False)
        comps = []
        if var["st"] != "none":
            module._starter = self.component(v, "st", v["sts"])
            comps.append(module._starter)
            if var["st"] == "loader":
                module._loader = module._starter
        if var["ld"]:
            module._loader = self.component(v, "ld")
            comps.append(module._loader)
        if var["mod"]:
            module._modifications.append(self.component(v, "m0"))
            comps.append(module._modifications[0])
        if var["cp"]:
            module._carrier_protein = self.component(v, "cp")
            comps.append(module._carrier_protein)
        if var["oth"]:
            module._others.append(self.component(v, "o0"))
            comps.append(module._others[0])
        if var["end"]:
            module._end = self.component(v, "en")
            comps.append(module._end)
        module._components = list(comps)
        module._unambiguous_accept = var["accept"]

        def slots():
            return (module._starter, module._loader, list(module._modifications), module._carrier_protein, module._end,
                    list(module._others), list(module._components))
        before = slots()
        trans_at_before = True if module.is_trans_at() else False
        new = self.component(v, "c", v["cs"])
        # of the look-ahead only the names are ever read (building real components would classify them first)
        from types import SimpleNamespace
        lookahead = [SimpleNamespace(domain=SimpleNamespace(hit_id=self.sym_name(v[key]))) for key in ("l0", "l1")]
        try:
            module.add_component(new, lookahead)
            refused = False
        except mi.IncompatibleComponentError:
            refused = True
        after = slots()
        same = all((a is b) if not isinstance(a, list) else (len(a) == len(b) and all(x is y for x, y in zip(a, b)))
                   for a, b in zip(before, after))
        where = []
        if not refused:
            if after[0] is new:
                where.append("starter")
            if after[1] is new:
                where.append("loader")
            if any(x is new for x in after[2]):
                where.append("mod")
            if after[3] is new:
                where.append("cp")
            if after[4] is new:
                where.append("end")
            if any(x is new for x in after[5]):
                where.append("other")
        others_kept = all(any(a is b for b in after[6]) for a in before[6]) and len(after[6]) == len(before[6]) + (1 if any(x is new for x in after[6]) else 0)
        return {"refused": refused, "unchanged": same, "where": where, "appended": any(x is new for x in after[6]),
                "others_kept": others_kept, "complete": True if module.is_complete() else False,
                "trans_at_before": trans_at_before, "trans_at": True if module.is_trans_at() else False,
                "accept_after": module._unambiguous_accept}

    def post(self, var, v, out):
        if is_raised(out):
            return [("no_other_exception", False)]
        c = v["c"]
        M = self.member
        pure, loader, mod, cpc, end = M(c, "pure"), M(c, "loader"), M(c, "mod"), M(c, "cp"), M(c, "end")
        ignored, special = M(c, "ignore"), M(c, "special")
        has_st, has_ld = var["st"] != "none", var["ld"] or var["st"] == "loader"
        has_mod, has_cp, has_end, has_comps = bool(var["mod"]), var["cp"], var["end"], any([has_st, var["mod"], var["cp"], var["end"], var["oth"]])
        lpg, beta = NAMES.index("LPG_synthase_C"), NAMES.index("Beta_elim_lyase")
        double_cp = L.And(v["l0"] == lpg, v["l1"] == beta)
        kr = c == NAMES.index("PKS_KR")
        mix = False
        if has_st:
            mix = L.Or(L.And(M(v["st"], "pks"), M(c, "nrps")), L.And(M(v["st"], "nrps"), M(c, "pks")))
        # what the documented layout allows in this state
        if var["accept"]:
            allowed = True            # announced by the look-ahead that was accepted with the second carrier protein
        else:
            allowed = L.Or(ignored, special,
                           L.And(not has_end,
                                 L.Or(L.And(pure, not has_comps),
                                      L.And(loader, not has_ld, not has_cp, not has_mod, L.Not(mix)),
                                      L.And(mod, L.Or(not has_cp, L.And(out["trans_at_before"], kr))),
                                      L.And(cpc, L.Or(not has_cp, double_cp)),
                                      end,
                                      L.Not(L.Or(pure, loader, mod, cpc, end)))))
        cl = [("refused_iff_the_layout_forbids_it", L.Iff(out["refused"], L.Not(allowed))),
              ("a_refusal_changes_nothing", L.Implies(out["refused"], out["unchanged"])),
              ("earlier_components_kept_in_order", out["others_kept"])]
        if not out["refused"]:
            cl.append(("ignored_domains_are_left_out", L.Iff(out["appended"], L.Not(ignored))))
            # the slot the component lands in
            w = out["where"]
            becomes_starter = L.And(L.Or(pure, loader), not has_st)
            cl.append(("lands_in_its_slot", L.And(
                L.Iff("starter" in w, becomes_starter),
                L.Iff("loader" in w, L.And(loader, not has_ld)),
                L.Iff("mod" in w, L.And(mod, L.Not(L.Or(pure, loader)))),
                L.Iff("cp" in w, L.And(cpc, not has_cp)),
                L.Iff("end" in w, end),
                L.Iff("other" in w, L.Or(L.And(cpc, has_cp), L.And(L.Not(L.Or(pure, loader, mod, cpc, end, ignored))))))))
            # completeness: documented function of the slots after the step
            st_after = L.Or(has_st, becomes_starter)
            ld_after = L.Or(has_ld, L.And(loader, not has_ld))
            cp_after = L.Or(has_cp, cpc)
            loader_is_starter = (var["st"] == "loader") if has_st else loader
            blocked = L.And(st_after, loader_is_starter, L.Not(v["first"]))
            complete = L.And(L.Not(blocked), L.Or(L.And(st_after, ld_after, cp_after), L.And(out["trans_at"], cp_after)))
            cl.append(("complete_iff_starter_loader_carrier", L.Iff(out["complete"], complete)))
            cl.append(("look_ahead_granted_only_for_the_double_carrier_protein",
                       L.Implies(out["accept_after"] > 0 if not var["accept"] else False, L.And(cpc, has_cp, double_cp))))
        return cl

    def klass(self, var, out):
        if is_raised(out):
            return "raised:" + out.etype
        return "refused" if out["refused"] else "added"

    def expected_classes(self, var):
        empty = var["st"] == "none" and not (var["mod"] or var["cp"] or var["end"] or var["oth"])
        return {"added"} if var["accept"] or empty else {"refused", "added"}


HARNESSES = [BuildModules(), CombineModules(), ModuleStep()]
