"""C05 - candidate clusters group protoclusters by the documented kinds."""
import itertools

from antismash.common.secmet.features.candidate_cluster.formation import create_candidates_from_protoclusters
from antismash.common.secmet.features.protocluster import Protocluster
from antismash.common.secmet.test.helpers import DummyCDS

from .. import logic as L
from .c04 import build, model_parts, shape_pre, shape_vars
from .common import (Harness, canon_loc, cn, contains_parts, in_parts, is_raised, mkloc, overlap_parts, parts_len,
                     wf_span)

F = "antismash.common.secmet.features.candidate_cluster.formation:"

# Protoclusters hash by identity, so the iteration order of the sets formation builds from them changes from run to run;
# the harness pins it to the hash of the product name (PYTHONHASHSEED is fixed by sx.sh) and reaches other orders by
# renaming the products (variants)
Protocluster.__hash__ = lambda self: hash(self.product)


class Formation(Harness):
    pid, name = "C05", "formation"
    functions = [F + "create_candidates_from_protoclusters", F + "_find_hybrids", F + "_merge_sets", F + "_find_interleaved",
                 F + "_find_interleaved_candidates", F + "_find_cross_origin_interleaved", F + "_find_neighbouring",
                 F + "_find_neighbouring_candidates", F + "_find_neighbouring_protoclusters",
                 "antismash.common.secmet.features.candidate_cluster.structures:CandidateCluster.__init__",
                 "antismash.common.secmet.features.cdscollection:CDSCollection.__lt__"]
    bound = ("Pn <= 3 free protoclusters (plus unit layouts of 4-5 protoclusters in which the two members of a hybrid pair have identical "
             "coordinates: hybrid + two lone ones, two hybrids + one, and in the thorough tier lone-hybrid-lone and hybrid-lone-hybrid) with "
             "symbolic core inside symbolic extent, distinct products, sharing patterns over pairs (quick: none, one pair, a chain; thorough: "
             "all; realised by a gene placed inside both cores), three supply orders (all six for Pn <= 2); linear records, and circular "
             "records with Pn <= 2 and one protocluster whose extent (and optionally core) spans the origin")
    outside = ("four or more free protoclusters and three with an origin-spanning one (>= 10^5 paths per variant); more than one "
               "origin-spanning protocluster; equal products")
    task_paths = 120
    stubs = ["Protocluster.__hash__ pinned to hash(product) so set iteration order is reproducible; other orders via renamed products"]

    def promotion_region(self, var, v):
        """known finding C05-1: a weaker group (interleaved / neighbouring) whose span has exactly the coordinates of an
        existing stronger candidate is not reported; its extra members are 'promoted' into the stronger candidate instead.
        Inputs: some protocluster m and a group S of >= 2 others that is linked within itself by core overlaps, where the
        extent of m lies inside the span of S's extents (so S and S+{m} have identical coordinates). Linear records."""
        pn = var["pn"]
        cores = [self.parts(var, v, i)[0] for i in range(pn)]
        exts = [self.parts(var, v, i)[1] for i in range(pn)]
        opts = []
        for m in range(pn):
            rest = [i for i in range(pn) if i != m]
            for r in range(2, len(rest) + 1):
                for sub in itertools.combinations(rest, r):
                    ov = [[overlap_parts(cores[a], cores[b]) if a != b else True for b in sub] for a in sub]
                    reach = L.closure(len(sub), ov)
                    linked = L.And([reach[0][j] for j in range(len(sub))])
                    lo = L.Min([exts[i][0][0] for i in sub])
                    hi = L.Max([exts[i][-1][1] for i in sub])
                    opts.append(L.And(linked, lo <= exts[m][0][0], exts[m][-1][1] <= hi))
        return L.Or(opts) if opts else False

    def variants(self, tier):
        if tier == "thorough":
            # sized to minutes: everything of the quick tier, the remaining sharing patterns of three protoclusters, three free
            # protoclusters under other names (other set iteration orders) and two further unit layouts. Four free protoclusters
            # and three with an origin-spanning one cost >= 10^5 paths per variant and are reached through the unit layouts only.
            out = self.variants("quick")
            for share in (((0, 2),), ((1, 2),), ((0, 1), (0, 2)), ((0, 2), (1, 2)), ((0, 1), (0, 2), (1, 2))):
                out.append({"pn": 3, "share": [list(p) for p in share], "circ": False, "shapes": ["s"] * 3,
                            "names": ["p0", "p1", "p2"], "all_orders": False})
            out.append({"pn": 3, "share": [], "circ": False, "shapes": ["s"] * 3, "names": ["p2", "p1", "p0"]})
            for sizes in ([2, 1, 2], [1, 2, 1]):
                twin, share, idx = [], [], 0
                for size in sizes:
                    twin.append(None)
                    if size == 2:
                        twin.append(idx)
                        share.append([idx, idx + 1])
                    idx += size
                out.append({"pn": idx, "share": share, "circ": False, "shapes": ["s"] * idx, "names": ["p%d" % i for i in range(idx)],
                            "twin": twin, "units": True, "tight": True})
            return out
        out = []
        pmax = 3
        for pn in range(1, pmax + 1):
            pairs = list(itertools.combinations(range(pn), 2))
            share_sets = [()]
            for r in range(1, len(pairs) + 1):
                for comb in itertools.combinations(pairs, r):
                    share_sets.append(comb)
            if pn == 3 and tier == "quick":
                share_sets = [(), ((0, 1),), ((0, 1), (1, 2))]
            if pn == 4:
                share_sets = [(), ((0, 1),), ((1, 2),), ((0, 1), (2, 3)), ((0, 3),)]
            for share in share_sets:
                names = ["p%d" % i for i in range(pn)]
                out.append({"pn": pn, "share": [list(p) for p in share], "circ": False, "shapes": ["s"] * pn, "names": names,
                            "all_orders": tier == "thorough"})
                if pn == 2 or (pn >= 3 and tier == "thorough"):
                    out.append({"pn": pn, "share": [list(p) for p in share], "circ": False, "shapes": ["s"] * pn,
                                "names": list(reversed(names))})
                if pn <= 2 or (tier == "thorough" and pn == 3 and len(share) <= 1):
                    # first protocluster's extent spans the origin (core simple or spanning)
                    out.append({"pn": pn, "share": [list(p) for p in share], "circ": True, "shapes": ["oe"] + ["s"] * (pn - 1), "names": names})
                    out.append({"pn": pn, "share": [list(p) for p in share], "circ": True, "shapes": ["oc"] + ["s"] * (pn - 1), "names": names})
        # larger structures with a symmetry reduction: the two protoclusters of a hybrid pair have identical coordinates,
        # so the pair behaves as one unit: two hybrids + a lone protocluster (5), three hybrids + a lone one (7, thorough)
        units = [[2, 2, 1]] if tier == "quick" else [[2, 2, 1], [2, 1, 2], [2, 2, 2, 1]]
        for sizes in units:
            twin, share, idx = [], [], 0
            for size in sizes:
                twin.append(None)
                if size == 2:
                    twin.append(idx)
                    share.append([idx, idx + 1])
                idx += size
            pn = idx
            out.append({"pn": pn, "share": share, "circ": False, "shapes": ["s"] * pn, "names": ["p%d" % i for i in range(pn)],
                        "twin": twin, "units": True, "tight": tier == "quick"})
        if tier == "quick":
            # a hybrid, a lone protocluster with a neighbourhood of its own (its extent can coincide with the hybrid's while its
            # core lies elsewhere) and a further lone protocluster without one
            out.append({"pn": 4, "share": [[0, 1]], "circ": False, "shapes": ["s"] * 4, "names": ["p%d" % i for i in range(4)],
                        "twin": [None, 0, None, None], "units": True, "tight": [3]})
        return out

    def vars(self, var):
        d = {"n": "int", "x": "int"}
        for i, sh in enumerate(var["shapes"]):
            if self.src(var, i) != i:
                continue
            d.update(shape_vars("e%d" % i, "o" if sh in ("oe", "oc") else "s"))
            d.update(shape_vars("c%d" % i, "o" if sh == "oc" else "s"))
        for a, b in var["share"]:
            d.update(shape_vars("g%d%d" % (a, b), "s"))
        return d

    def src(self, var, i):
        """protocluster whose coordinate variables i uses (twins of a hybrid pair share coordinates)"""
        twin = var.get("twin")
        return i if not twin or twin[i] is None else twin[i]

    def parts(self, var, v, i):
        i = self.src(var, i)
        sh = var["shapes"][i]
        ext = model_parts("e%d" % i, "o" if sh in ("oe", "oc") else "s", v)
        core = model_parts("c%d" % i, "o" if sh == "oc" else "s", v)
        return core, ext

    def pre(self, var, v):
        n = v["n"]
        c = [0 <= v["x"], v["x"] < n]
        for i, sh in enumerate(var["shapes"]):
            if self.src(var, i) != i:
                continue
            c.append(shape_pre("e%d" % i, "o" if sh in ("oe", "oc") else "s", v, n))
            c.append(shape_pre("c%d" % i, "o" if sh == "oc" else "s", v, n))
            core, ext = self.parts(var, v, i)
            c.append(contains_parts(ext, core))
            if sh == "oc":
                # both halves of the core inside the matching halves of the extent
                c.append(L.And(ext[0][0] <= core[0][0], core[1][1] <= ext[1][1]))
        if var.get("tight"):
            # quick tier: in the unit layouts only the first unit has a neighbourhood, the others have extent == core
            for i in (range(1, var["pn"]) if var["tight"] is True else var["tight"]):
                if self.src(var, i) == i and self.src(var, i) != 0:
                    core, ext = self.parts(var, v, i)
                    c.append(L.And(core[0][0] == ext[0][0], core[0][1] == ext[0][1]))
        for a, b in var["share"]:
            c.append(shape_pre("g%d%d" % (a, b), "s", v, n))
            g = model_parts("g%d%d" % (a, b), "s", v)
            c.append(contains_parts(self.parts(var, v, a)[0], g))
            c.append(contains_parts(self.parts(var, v, b)[0], g))
        return L.And(c)

    def build_protos(self, var, v):
        protos = []
        for i, sh in enumerate(var["shapes"]):
            j = self.src(var, i)
            core = build("c%d" % j, "o" if sh == "oc" else "s", v)
            ext = build("e%d" % j, "o" if sh in ("oe", "oc") else "s", v)
            protos.append(Protocluster(core, ext, tool="test", product=var["names"][i], cutoff=1, neighbourhood_range=0,
                                       detection_rule="r"))
        for a, b in var["share"]:
            gene = DummyCDS(location=build("g%d%d" % (a, b), "s", v), locus_tag="g%d%d" % (a, b), translation="A")
            protos[a]._definition_cdses.add(gene)
            protos[b]._definition_cdses.add(gene)
        return protos

    def run(self, var, v):
        outs = []
        pn = var["pn"]
        if var.get("units"):
            perms = [tuple(range(pn))]
        elif pn <= 2 or (pn == 3 and var.get("all_orders")):
            perms = list(itertools.permutations(range(pn)))
        else:
            perms = [tuple(range(pn)), tuple(reversed(range(pn))), ((2, 0, 3, 1) if pn == 4 else (1, 2, 0))]
        for perm in perms:
            protos = self.build_protos(var, v)
            cands = create_candidates_from_protoclusters([protos[i] for i in perm],
                                                         circular_wrap_point=v["n"] if var["circ"] else None)
            res = []
            for cand in cands:
                res.append({"kind": str(cand.kind), "members": sorted(protos.index(p) for p in cand.protoclusters),
                            "loc": canon_loc(cand.location)})
            outs.append(res)
        return outs

    def post(self, var, v, out):
        if is_raised(out):
            return [("no_raise", False)]
        n, x = v["n"], v["x"]
        pn = var["pn"]
        cores = [self.parts(var, v, i)[0] for i in range(pn)]
        exts = [self.parts(var, v, i)[1] for i in range(pn)]
        share = [[([min(i, j), max(i, j)] in var["share"]) if i != j else True for j in range(pn)] for i in range(pn)]
        core_ov = [[overlap_parts(cores[i], cores[j]) if i != j else True for j in range(pn)] for i in range(pn)]
        ext_ov = [[overlap_parts(exts[i], exts[j]) if i != j else True for j in range(pn)] for i in range(pn)]
        reach_core = L.closure(pn, core_ov)
        reach_ext = L.closure(pn, ext_ov)
        reach_share = L.closure(pn, share)
        cl = []
        first = out[0]

        def key(cands):
            return sorted((c["kind"], tuple(c["members"])) for c in cands)
        cl.append(("independent_of_supply_order", all(key(o) == key(first) for o in out)))
        for cands in out[:1]:
            cl.append(("every_protocluster_in_a_candidate", all(any(i in c["members"] for c in cands) for i in range(pn))))
            seen = []
            for c in cands:
                # span covering exactly its members
                span = c["loc"]
                cl.append(("candidate_location_well_formed", wf_span(span, n)))
                cl.append(("candidate_covers_its_members", L.Implies(L.Or([in_parts(x, exts[m]) for m in c["members"]]),
                                                                     in_parts(x, span))))
                if not var["circ"]:
                    lo = L.Min([exts[m][0][0] for m in c["members"]])
                    hi = L.Max([exts[m][-1][1] for m in c["members"]])
                    cl.append(("candidate_is_exact_span_of_members", L.And(len(span) == 1, span[0][0] == lo, span[0][1] == hi)))
                ident = (tuple(c["members"]), )
                same_coords = [d for d in seen if d[0] == tuple(c["members"])]
                for d in same_coords:
                    cl.append(("no_two_candidates_with_same_coordinates_and_membership",
                               L.Not(L.And(len(d[1]) == len(span), [L.And(a[0] == b[0], a[1] == b[1]) for a, b in zip(d[1], span)]))))
                seen.append((tuple(c["members"]), span))
                ms = c["members"]
                if c["kind"] == "chemical_hybrid":
                    # transitive sharing group, plus protoclusters whose core lies inside the group's core span
                    cl.append(("hybrid_has_a_sharing_pair", any(share[a][b] for a in ms for b in ms if a != b)))
                    cl.append(("hybrid_members_linked_by_core_overlap", L.And([reach_core[a][b] for a in ms for b in ms if a < b])))
                elif c["kind"] == "interleaved":
                    cl.append(("interleaved_members_linked_by_core_overlap", L.And([reach_core[a][b] for a in ms for b in ms if a < b])))
                    cl.append(("interleaved_has_several_members", len(ms) > 1))
                elif c["kind"] == "neighbouring":
                    cl.append(("neighbouring_members_linked_by_extent_overlap", L.And([reach_ext[a][b] for a in ms for b in ms if a < b])))
                    cl.append(("neighbouring_has_several_members", len(ms) > 1))
                else:
                    cl.append(("single_has_one_member", len(ms) == 1))
            for a in range(pn):
                for b in range(a + 1, pn):
                    in_hybrid = any(a in c["members"] and b in c["members"] and c["kind"] == "chemical_hybrid" for c in cands)
                    in_strong = any(a in c["members"] and b in c["members"] and c["kind"] in ("chemical_hybrid", "interleaved") for c in cands)
                    in_any = any(a in c["members"] and b in c["members"] for c in cands)
                    cl.append(("sharing_protoclusters_form_a_hybrid", L.Implies(reach_share[a][b], in_hybrid)))
                    cl.append(("core_overlapping_protoclusters_grouped", L.Implies(reach_core[a][b], in_strong)))
                    cl.append(("extent_overlapping_protoclusters_grouped", L.Implies(reach_ext[a][b], in_any)))
            # singles: every protocluster not absorbed into a hybrid / interleaved group has a single, unless a candidate with
            # identical coordinates already contains it
            for i in range(pn):
                absorbed = any(i in c["members"] and c["kind"] in ("chemical_hybrid", "interleaved") for c in cands)
                has_single = any(c["members"] == [i] and c["kind"] == "single" for c in cands)
                if not absorbed and not has_single:
                    same = [c for c in cands if i in c["members"]]
                    cl.append(("unabsorbed_protocluster_has_single_unless_same_coordinates",
                               L.Or([L.And(len(c["loc"]) == len(exts[i]),
                                           [L.And(a[0] == b[0], a[1] == b[1]) for a, b in zip(c["loc"], exts[i])]) for c in same])))
                if has_single:
                    dup = [c for c in cands if i in c["members"] and c["kind"] != "single"]
                    for c in dup:
                        cl.append(("no_single_with_the_coordinates_of_a_candidate_containing_it",
                                   L.Not(L.And(len(c["loc"]) == len(exts[i]),
                                               [L.And(a[0] == b[0], a[1] == b[1]) for a, b in zip(c["loc"], exts[i])]))))
        return cl


HARNESSES = [Formation()]
