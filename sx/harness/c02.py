"""C02 - rule text is parsed by the documented grammar, precedence and aliases."""
import itertools

from antismash.common.hmm_rule_parser import rule_parser as rp
from antismash.common.hmm_rule_parser.rule_parser import TokenTypes as TT

from .. import logic as L
from .common import Harness, is_raised

RP = "antismash.common.hmm_rule_parser.rule_parser:"
KINDS = [TT.GROUP_OPEN, TT.GROUP_CLOSE, TT.LIST_OPEN, TT.LIST_CLOSE, TT.COMMA, TT.AND, TT.OR, TT.NOT, TT.CDS, TT.MINIMUM,
         TT.SCORE, TT.INT, TT.IDENTIFIER]
NAMES = ["a", "b", "c", "zz"]          # zz is not a known signature
KNOWN = {"a", "b", "c"}
INTS = [0, 1, 2, 3, 150]               # integer tokens (digits only, so never negative)
HEADER = "RULE r CATEGORY cat CUTOFF 20 NEIGHBOURHOOD 5 CONDITIONS "
TEXT_OF = {TT.GROUP_OPEN: "(", TT.GROUP_CLOSE: ")", TT.LIST_OPEN: "[", TT.LIST_CLOSE: "]", TT.COMMA: ",", TT.AND: "and", TT.OR: "or",
           TT.NOT: "not", TT.CDS: "cds", TT.MINIMUM: "minimum", TT.SCORE: "minscore"}


class StreamToken(rp.Token):
    """a token of the CONDITIONS section whose kind, identifier and number are given directly (symbolic or concrete)"""
    def __init__(self, kind, name, number, pos):
        self.__dict__.update({"type": kind, "_name": name, "_number": number, "line_number": 1, "position": pos,
                              "aliased": False})

    def __getattr__(self, key):
        if key == "value":
            if self.type != TT.INT:
                raise AttributeError("Token is not numeric")
            return self._number
        if key == "identifier":
            if self.type != TT.IDENTIFIER:
                raise AttributeError("Token has no identifier")
            return str(self._name)       # a plain string from here on (forks over the names)
        if key == "token_text":
            if T(self.type == TT.IDENTIFIER):
                return str(self._name)
            if T(self.type == TT.INT):
                return str(self._number)
            return TEXT_OF[concrete_kind(self.type)]
        return self.__dict__[key]


def T(x):
    return True if x else False


def concrete_kind(kind):
    return kind.concretise() if L.issym(kind) else kind


_STREAM = []


class StreamTokeniser:
    """stands in for Tokeniser in the stream harness: the real tokens of the fixed header followed by the stream"""
    mapping = rp.Tokeniser.mapping

    def __init__(self, text):
        self.tokens = list(_REAL_TOKENISER(HEADER).tokens) + list(_STREAM)


_REAL_TOKENISER = rp.Tokeniser


# ------------------------------------------------------------------------------------------------
# reference parser: an independent transcription of the documented grammar
#   CONDITIONS = CONDITION { (and|or) CONDITION }      precedence: not > and > or
#   CONDITION  = [not] ( ID | '(' CONDITIONS ')' | cds '(' CDS_CONDITIONS ')' | minimum '(' INT ',' '[' ID {',' ID} ']' ')'
#                        | minscore '(' ID ',' INT ')' )
#   inside cds(...): only identifiers, not, and, or and groups; at least one binary operator

class Reject(Exception):
    pass


class Ref:
    def __init__(self, tokens):
        self.toks = tokens
        self.i = 0

    def peek(self, kind):
        return self.i < len(self.toks) and T(self.toks[self.i].type == kind)

    def take(self, kind):
        if not self.peek(kind):
            raise Reject("expected %s at %d" % (kind, self.i))
        self.i += 1
        return self.toks[self.i - 1]

    def conditions(self, in_cds):
        ors = [self.ands(in_cds)]
        while self.peek(TT.OR):
            self.take(TT.OR)
            ors.append(self.ands(in_cds))
        return ors[0] if len(ors) == 1 else ("or",) + tuple(ors)

    def ands(self, in_cds):
        items = [self.single(in_cds)]
        while self.peek(TT.AND):
            self.take(TT.AND)
            items.append(self.single(in_cds))
        return items[0] if len(items) == 1 else ("and",) + tuple(items)

    def single(self, in_cds):
        negated = False
        if self.peek(TT.NOT):
            self.take(TT.NOT)
            negated = True
        if self.peek(TT.GROUP_OPEN):
            self.take(TT.GROUP_OPEN)
            node = self.conditions(in_cds)
            self.take(TT.GROUP_CLOSE)
        elif not in_cds and self.peek(TT.CDS):
            self.take(TT.CDS)
            self.take(TT.GROUP_OPEN)
            inner = self.conditions(True)
            self.take(TT.GROUP_CLOSE)
            if inner[0] == "p" or (inner[0] == "not" and inner[1][0] == "p"):
                raise Reject("cds needs more than a single identifier")
            node = ("cds", inner)
        elif not in_cds and self.peek(TT.MINIMUM):
            self.take(TT.MINIMUM)
            self.take(TT.GROUP_OPEN)
            count = self.take(TT.INT).value
            self.take(TT.COMMA)
            self.take(TT.LIST_OPEN)
            names = [self.take(TT.IDENTIFIER).identifier]
            while self.peek(TT.COMMA):
                self.take(TT.COMMA)
                names.append(self.take(TT.IDENTIFIER).identifier)
            self.take(TT.LIST_CLOSE)
            self.take(TT.GROUP_CLOSE)
            if T(count < 1):
                raise Reject("minimum count must be positive")
            names = [str(nm) for nm in names]
            if len(set(names)) != len(names):
                raise Reject("repeated option")
            node = ("min", count, tuple(sorted(names)))
        elif self.peek(TT.SCORE) and not in_cds:
            self.take(TT.SCORE)
            self.take(TT.GROUP_OPEN)
            name = str(self.take(TT.IDENTIFIER).identifier)
            self.take(TT.COMMA)
            score = self.take(TT.INT).value
            self.take(TT.GROUP_CLOSE)
            node = ("score", name, score)
        else:
            node = ("p", str(self.take(TT.IDENTIFIER).identifier))
        return ("not", node) if negated else node


def names_of(node):
    k = node[0]
    if k == "p":
        return {node[1]}
    if k == "score":
        return {node[1]}
    if k == "min":
        return set(node[2])
    if k in ("not", "cds"):
        return names_of(node[1])
    return set().union(*[names_of(s) for s in node[1:]])


def positive(node):
    k = node[0]
    if k == "not":
        return False
    if k in ("and", "or"):
        return any(positive(s) for s in node[1:])
    return True


def repeated_operand(node):
    """the parser refuses a condition list repeating an operand textually"""
    k = node[0]
    if k in ("and", "or"):
        texts = [canon(s) for s in node[1:]]
        if len(set(texts)) != len(texts):
            return True
        return any(repeated_operand(s) for s in node[1:])
    if k in ("not", "cds"):
        return repeated_operand(node[1])
    return False


def canon(node):
    k = node[0]
    if k == "p":
        return node[1]
    if k == "score":
        return "minscore(%s,%s)" % (node[1], node[2])
    if k == "min":
        return "minimum(%s,[%s])" % (node[1], ",".join(node[2]))
    if k == "not":
        return "not " + canon(node[1])
    if k == "cds":
        return "cds(%s)" % canon(node[1])
    return "(" + (" %s " % k).join(canon(s) for s in node[1:]) + ")"


def reference(tokens):
    """-> ('accept', ast) or ('reject', reason)"""
    ref = Ref(tokens)
    try:
        ast = ref.conditions(False)
        if ref.i != len(tokens):
            raise Reject("trailing tokens")
        if names_of(ast) - KNOWN:
            raise Reject("unknown profile")
        if not positive(ast):
            raise Reject("only negative conditions")
        if repeated_operand(ast):
            raise Reject("repeated operand")
    except Reject as err:
        return ("reject", str(err))
    return ("accept", ast)


# ---- meaning of trees as truth tables over atoms

def atoms_of(node, acc):
    k = node[0]
    if k == "p":
        acc.add(("p", node[1]))
    elif k == "score":
        acc.add(("score", node[1], node[2]))
    elif k == "min":
        acc.add(node)
    elif k == "cds":
        acc.add(("cds", table(node[1])))
    elif k == "not":
        atoms_of(node[1], acc)
    else:
        for s in node[1:]:
            atoms_of(s, acc)
    return acc


def value(node, env):
    k = node[0]
    if k == "p":
        return env[("p", node[1])]
    if k == "score":
        return env[("score", node[1], node[2])]
    if k == "min":
        return env[node]
    if k == "cds":
        return env[("cds", table(node[1]))]
    if k == "not":
        return not value(node[1], env)
    vals = [value(s, env) for s in node[1:]]
    return all(vals) if k == "and" else any(vals)


def table(node):
    atoms = sorted(atoms_of(node, set()), key=repr)
    rows = []
    for bits in itertools.product((False, True), repeat=len(atoms)):
        rows.append(value(node, dict(zip(atoms, bits))))
    return (tuple(atoms), tuple(rows))


def tree_of(cond):
    """the real parsed Conditions object as a reference-style tree"""
    if isinstance(cond, rp.SingleCondition):
        node = ("p", str(cond.name))
    elif isinstance(cond, rp.ScoreCondition):
        node = ("score", str(cond.name), cond.score)
    elif isinstance(cond, rp.MinimumCondition):
        node = ("min", cond.count, tuple(sorted(str(o) for o in cond.options)))
    elif isinstance(cond, rp.AndCondition):
        node = ("and",) + tuple(tree_of(o) for o in cond.operands)
    elif isinstance(cond, rp.CDSCondition):
        inner = [tree_of(o) for o in cond.operands]
        node = ("cds", inner[0] if len(inner) == 1 else ("or",) + tuple(inner))
    else:
        inner = [tree_of(o) for o in cond.operands]
        node = inner[0] if len(inner) == 1 else ("or",) + tuple(inner)
    if cond.negated:
        node = ("not", node)
    return node


def plain(node):
    """symbolic numbers inside a tree compared by forcing equality checks to concrete strings is not possible; the
    harness keeps counts/scores as (possibly symbolic) numbers and compares them with T(==)"""
    return node


def same_tree_meaning(a, b):
    ta, tb = table(a), table(b)
    if len(ta[0]) != len(tb[0]) or ta[1] != tb[1]:
        return False
    for x, y in zip(ta[0], tb[0]):
        if len(x) != len(y) or x[0] != y[0]:
            return False
        for p, q in zip(x[1:], y[1:]):
            if not T(p == q):
                return False
    return True


class TokenStream(Harness):
    pid, name = "C02", "token_stream"
    functions = [RP + "Parser", RP + "Parser._parse_rule", RP + "Parser._parse_conditions", RP + "Parser._parse_ands",
                 RP + "Parser._parse_single_condition", RP + "Parser._parse_cds", RP + "Parser._parse_group", RP + "Parser._parse_minimum",
                 RP + "Parser._parse_score", RP + "Parser._consume", RP + "find_condition_identifiers", RP + "DetectionRule.__init__",
                 RP + "Conditions.__init__", RP + "MinimumCondition.__init__"]
    bound = ("the CONDITIONS section as a stream of L <= 5 (quick) / 6 (thorough) fully symbolic tokens, plus streams with a concrete opening (cds(, not cds(, minscore(, minimum(2, , a and cds(, (a or, not () followed by 4 (quick) / 5 (thorough) symbolic tokens, whose kinds are symbolic over 13 token types, "
             "identifiers symbolic over {a, b, c, unknown}, integers symbolic over {0,1,2,3,150}; fixed concrete header; the real Parser and an independent "
             "transcription of the documented grammar run on the same symbolic stream in one path")
    outside = "streams longer than L; characters (the tokeniser has its own harness); DESCRIPTION / EXAMPLE / RELATED sections"
    stubs = ["Tokeniser replaced by a stand-in returning the real header tokens plus the symbolic stream (this harness only)"]
    task_paths = 250

    def variants(self, tier):
        out = [{"len": n, "prefix": []} for n in range(1, (5 if tier == "quick" else 6) + 1)]
        # longer constructs: a concrete opening followed by a fully symbolic remainder
        tail = 4 if tier == "quick" else 5
        for prefix in (["cds", "("], ["not", "cds", "("], ["minscore", "("], ["minimum", "(", "2", ","], ["a", "and", "cds", "("],
                       ["(", "a", "or"], ["not", "("]):
            out.append({"len": tail, "prefix": prefix})
        if tier == "quick":
            out.append({"len": 5, "prefix": ["not", "("]})      # the shortest accepted text with a negated group around a negation
        return out

    def vars(self, var):
        d = {}
        for i in range(var["len"]):
            d["k%d" % i] = "int"
            d["m%d" % i] = "int"
            d["n%d" % i] = "int"
        return d

    def pre(self, var, v):
        kinds = [int(k.value) for k in KINDS]
        c = []
        for i in range(var["len"]):
            c.append(L.Or([v["k%d" % i] == kv for kv in kinds]))
            c.append(L.And(0 <= v["m%d" % i], v["m%d" % i] < len(NAMES), L.Or([v["n%d" % i] == d for d in INTS])))
            # the fields of a token that are not read for its kind are fixed (symmetry)
            c.append(L.Or(v["k%d" % i] == int(TT.IDENTIFIER.value), v["m%d" % i] == 0))
            c.append(L.Or(v["k%d" % i] == int(TT.INT.value), v["n%d" % i] == 0))
        return L.And(c)

    def tokens(self, var, v):
        toks = [rp.Token(text, 1, 60 + 3 * j) for j, text in enumerate(var["prefix"])]
        for i in range(var["len"]):
            k, m, n = v["k%d" % i], v["m%d" % i], v["n%d" % i]
            if L.issym(k):
                from ..core import SymEnum, SymName
                kind, name = SymEnum(k, TT, KINDS), SymName(m, NAMES)
            else:
                kind, name = TT(k), NAMES[m]
            # numbers are written back into rule text by the round trip, so they are made concrete (forks) up front
            number = n
            if L.issym(n):
                number = INTS[-1]
                for d in INTS[:-1]:
                    if T(n == d):
                        number = d
                        break
            toks.append(StreamToken(kind, name, number, 60 + 3 * (i + len(var["prefix"]))))
        return toks

    def run(self, var, v):
        toks = self.tokens(var, v)
        _STREAM[:] = toks
        rp.Tokeniser = StreamTokeniser
        try:
            try:
                rule = rp.Parser(HEADER, set(KNOWN), {"cat"}).rules[0]
                real = ("accept", tree_of(rule.conditions))
            except (rp.RuleSyntaxError, ValueError) as err:
                real = ("reject", type(err).__name__)
        finally:
            rp.Tokeniser = _REAL_TOKENISER
        ref = reference(toks)
        agree = real[0] == ref[0]
        same = True
        if real[0] == "accept" and ref[0] == "accept":
            same = same_tree_meaning(real[1], ref[1])
        roundtrip = True
        if real[0] == "accept":
            # the regenerated text parses back (real tokeniser) to a rule with the same name, distances and meaning
            again = rp.Parser(rule.reconstruct_rule_text(), set(KNOWN), {"cat"}).rules[0]
            roundtrip = (again.name == rule.name and T(again.cutoff == rule.cutoff) and T(again.neighbourhood == rule.neighbourhood)
                         and same_tree_meaning(tree_of(again.conditions), real[1]))
        return {"real": real[0], "reference": ref[0], "agree": agree, "same_meaning": same, "roundtrip": roundtrip,
                "why": ref[1] if ref[0] == "reject" else ""}

    def klass(self, var, out):
        if is_raised(out):
            return "raised:" + out.etype
        return out["real"]

    def expected_classes(self, var):
        if var["prefix"]:
            if var["prefix"] == ["not", "cds", "("] or (var["prefix"][0] in ("minscore", "minimum") and var["len"] == 5):
                return {"reject"}       # no continuation of exactly this many tokens completes an accepted rule
            return {"reject"} if var["prefix"][0] == "not" and var["len"] < 5 else {"accept", "reject"}
        return {"reject"} if var["len"] == 2 else {"accept", "reject"}

    def post(self, var, v, out):
        if is_raised(out):
            return [("only_documented_errors", False)]
        return [("accepts_exactly_the_documented_grammar", out["agree"]),
                ("parsed_tree_means_what_the_grammar_denotes", out["same_meaning"]),
                ("regenerated_text_parses_back_to_the_same_rule", out["roundtrip"])]


HARNESSES = [TokenStream()]


# ------------------------------------------------------------------------------------------------
# rule files: programs are enumerated here (concrete texts); every variant is one execution of the real Parser

def rule_text(name, cutoff, neigh, conditions, superiors=None):
    sup = ("SUPERIORS %s " % ", ".join(superiors)) if superiors else ""
    return "RULE %s CATEGORY cat %sCUTOFF %d NEIGHBOURHOOD %d CONDITIONS %s\n" % (name, sup, cutoff, neigh, conditions)


class RuleFiles(Harness):
    pid, name = "C02", "rule_files"
    functions = [RP + "Parser", RP + "Parser._parse_superiors", RP + "Parser._parse_alias", RP + "Parser._consume",
                 RP + "Parser._verify_alias_name", RP + "Tokeniser.tokenise",
                 "antismash.common.hmm_rule_parser.structures:Multipliers"]
    bound = ("enumerated rule files (the programs axis is concrete here): three rules whose SUPERIORS lists range over every ordered "
             "list of <= 2 names out of {r1, r2, r3, unknown}; cutoff / neighbourhood 1..3 kb x multipliers {0.5, 1, 1.5, 2} x rules split "
             "over 1..3 files; aliases (4 bodies x 4 uses) against their textual expansion, within one file and across files; "
             "whitespace / comment placements")
    outside = "anything not enumerated; DESCRIPTION / EXAMPLE text"

    def variants(self, tier):
        out = []
        names = ["r1", "r2", "r3", "nope"]
        lists = [[]] + [[a] for a in names] + [[a, b] for a in names for b in names]
        for s2 in ([], ["r1"], ["nope"], ["r1", "r1"], ["r3"], ["r2"]):
            for s3 in lists:
                if tier == "quick" and len(s3) == 2 and s3[0] == s3[1] and s3[0] != "r1":
                    continue
                out.append({"kind": "superiors", "s2": s2, "s3": s3})
        for low in (["m1", "m2"], ["m2", "m1"], ["m1"], ["m2", "t1"], ["t1", "m2"], ["m1", "m2", "t2"]):
            for split in (False, True):
                out.append({"kind": "superiors5", "low": low, "split": split})
        for mult in (0.5, 1.0, 1.5, 2.0):
            for split in ((3,), (1, 2), (2, 1), (1, 1, 1)):
                out.append({"kind": "distances", "mult": mult, "split": list(split)})
        bodies = ["a", "a or b", "not a", "( a and b )", "nope", "a or nope"]      # (nope: a name without a profile)
        uses = ["{x}", "c and {x}", "not ( {x} ) or c", "cds ( c and {x} )"]
        for body in bodies:
            for use in uses:
                for across in (False, True):
                    out.append({"kind": "alias", "body": body, "use": use, "across": across})
        for name_clash in ("a", "cat", "r1", "x"):
            out.append({"kind": "alias_name", "name": name_clash})
        for ws in range(6):
            out.append({"kind": "whitespace", "style": ws})
        return out

    def vars(self, var):
        return {"unused": "int"}

    def pre(self, var, v):
        return v["unused"] == 0

    def parse_files(self, texts, mult=None):
        from antismash.common.hmm_rule_parser.structures import Multipliers
        rules, aliases = [], {}
        for text in texts:
            parser = rp.Parser(text, set(KNOWN), {"cat"}, rules, existing_aliases=aliases,
                               multipliers=Multipliers(cutoff=mult, neighbourhood=mult) if mult else None)
            aliases.update(parser.aliases)
            rules = parser.rules
        return rules

    def run(self, var, v):
        kind = var["kind"]
        if kind == "superiors":
            text = (rule_text("r1", 10, 5, "a") + rule_text("r2", 10, 5, "b", var["s2"]) + rule_text("r3", 10, 5, "c", var["s3"]))
            try:
                rules = self.parse_files([text])
                return {"ok": True, "sup": {r.name: sorted(r.superiors) for r in rules}}
            except (ValueError, rp.RuleSyntaxError):
                return {"ok": False}
        if kind == "superiors5":
            texts = [rule_text("t1", 10, 5, "a") + rule_text("t2", 10, 5, "b"),
                     rule_text("m1", 10, 5, "c", ["t1"]) + rule_text("m2", 10, 5, "a or b", ["t2"]),
                     rule_text("low", 10, 5, "a and b", var["low"])]
            rules = self.parse_files(texts if var["split"] else ["".join(texts)])
            return {"ok": True, "sup": {r.name: sorted(r.superiors) for r in rules}}
        if kind == "distances":
            defs = [("r1", 1, 2), ("r2", 2, 3), ("r3", 3, 1)]
            texts, i = [], 0
            for size in var["split"]:
                texts.append("".join(rule_text(n, c, nb, "a") for n, c, nb in defs[i:i + size]))
                i += size
            rules = self.parse_files(texts, var["mult"])
            return {"ok": True, "dist": {r.name: [r.cutoff, r.neighbourhood] for r in rules}}
        if kind == "alias":
            define = "DEFINE x AS %s\n" % var["body"]
            used = rule_text("r1", 10, 5, var["use"].format(x="x"))
            expanded = rule_text("r1", 10, 5, var["use"].format(x=var["body"]))
            try:
                with_alias = self.parse_files([define, used] if var["across"] else [define + used])
                a = ("accept", table(tree_of(with_alias[0].conditions)))
            except (ValueError, rp.RuleSyntaxError) as err:
                a = ("reject", type(err).__name__)
            try:
                plain_rules = self.parse_files([expanded])
                b = ("accept", table(tree_of(plain_rules[0].conditions)))
            except (ValueError, rp.RuleSyntaxError) as err:
                b = ("reject", type(err).__name__)
            return {"ok": True, "same": a == b, "alias": a[0], "expanded": b[0]}
        if kind == "alias_name":
            text = rule_text("r1", 10, 5, "a") + "DEFINE %s AS b\n" % var["name"] + rule_text("r2", 10, 5, "c")
            try:
                self.parse_files([text])
                return {"ok": True}
            except (ValueError, rp.RuleSyntaxError):
                return {"ok": False}
        styles = ["RULE r1 CATEGORY cat CUTOFF 10 NEIGHBOURHOOD 5 CONDITIONS a and (b or not c)",
                  "RULE r1\\n\\tCATEGORY cat\\n  CUTOFF 10\\n NEIGHBOURHOOD   5\\n CONDITIONS a and\\n(b or not c)\\n",
                  "# leading comment\\nRULE r1 CATEGORY cat # trailing ( comment and\\nCUTOFF 10 NEIGHBOURHOOD 5 CONDITIONS a and (b or not c) # end",
                  "RULE r1 CATEGORY cat CUTOFF 10 NEIGHBOURHOOD 5 CONDITIONS a and(b or not c)",
                  "RULE r1 CATEGORY cat CUTOFF 10 NEIGHBOURHOOD 5 CONDITIONS a and ( b\\tor not\\tc )#x",
                  "\\n\\nRULE r1 CATEGORY cat CUTOFF 10 NEIGHBOURHOOD 5 CONDITIONS\\n#only a comment line\\n a and (b or not c)\\n\\n"]
        text = styles[var["style"]].encode().decode("unicode_escape")
        rules = self.parse_files([text])
        base = self.parse_files([styles[0]])
        return {"ok": True, "same": table(tree_of(rules[0].conditions)) == table(tree_of(base[0].conditions))
                and rules[0].cutoff == base[0].cutoff and rules[0].neighbourhood == base[0].neighbourhood and rules[0].name == "r1"}

    def post(self, var, v, out):
        if is_raised(out):
            return [("only_documented_errors", False)]
        kind = var["kind"]
        if kind == "superiors":
            direct = {"r1": [], "r2": var["s2"], "r3": var["s3"]}
            order = ["r1", "r2", "r3"]
            legal = True
            for i, r in enumerate(order):
                lst = direct[r]
                if len(set(lst)) != len(lst) or any(s not in order[:i] for s in lst):
                    legal = False
            cl = [("ill_formed_superiors_rejected", out["ok"] == legal)]
            if out["ok"] and legal:
                closure = {}
                for r in order:
                    acc = set(direct[r])
                    for s in direct[r]:
                        acc |= closure[s]
                    closure[r] = acc
                cl.append(("superiors_closed_transitively", all(out["sup"][r] == sorted(closure[r]) for r in order)))
            return cl
        if kind == "superiors5":
            parents = {"t1": set(), "t2": set(), "m1": {"t1"}, "m2": {"t2"}}
            want = set(var["low"])
            for s in var["low"]:
                want |= parents[s]
            return [("superiors_closed_transitively", out["sup"]["low"] == sorted(want) and out["sup"]["m1"] == ["t1"]
                     and out["sup"]["m2"] == ["t2"])]
        if kind == "distances":
            want = {"r1": [1, 2], "r2": [2, 3], "r3": [3, 1]}
            return [("distances_in_kilobases_scaled_once",
                     all(out["dist"][r] == [int(1000 * c * var["mult"]), int(1000 * nb * var["mult"])] for r, (c, nb) in want.items()))]
        if kind == "alias":
            return [("alias_is_textual_substitution", out["same"])]
        if kind == "alias_name":
            return [("alias_name_clash_rejected", out["ok"] == (var["name"] == "x"))]
        return [("whitespace_and_comments_irrelevant", out["same"])]


HARNESSES = [TokenStream(), RuleFiles()]
