"""C04 - location algebra agrees with the set-of-bases model on line and ring."""
import itertools

from antismash.common.secmet import locations as loc_mod
from antismash.common.secmet.features.feature import Feature
from antismash.common.secmet.locations import (
    CompoundLocation,
    FeatureLocation,
    connect_locations,
    get_distance_between_locations,
    location_contains_other,
    location_from_string,
    locations_overlap,
    offset_location,
)

from .. import logic as L
from .common import (Harness, canon_loc, cn, contains_parts, in_parts, is_raised, mkloc, mkrecord,
                     overlap_parts, parts_len, wf_parts, wf_span)

M = "antismash.common.secmet.locations:"


SHAPE_PARTS = {"s": 1, "j2": 2, "j3": 3, "o": 2, "b": 2, "o3": 3}


def shape_vars(prefix, shape):
    """shape: 's' simple, 'j2'/'j3' ordered multi-part (exons, forward order), 'o' origin-spanning two-part"""
    k = SHAPE_PARTS[shape]
    names = {}
    for i in range(k):
        names["%ss%d" % (prefix, i)] = "int"
        names["%se%d" % (prefix, i)] = "int"
    return names


def shape_parts(prefix, shape, v):
    k = SHAPE_PARTS[shape]
    return [(v["%ss%d" % (prefix, i)], v["%se%d" % (prefix, i)]) for i in range(k)]


def shape_pre(prefix, shape, v, n=None):
    """parts in biological (forward-strand) order; disjoint; 'o' = [s0,n) + [0,e1) with e1 <= s0"""
    parts = shape_parts(prefix, shape, v)
    cs = []
    for s, e in parts:
        cs += [0 <= s, s < e]
        if n is not None:
            cs.append(e <= n)
    if shape in ("j2", "j3"):
        for (s1, e1), (s2, e2) in zip(parts, parts[1:]):
            cs.append(e1 <= s2)
    if shape == "o":
        (s0, e0), (s1, e1) = parts
        cs += [s1 == 0, e1 < s0]
        if n is not None:
            cs.append(e0 == n)
    if shape == "o3":
        # two exons before the origin and one after it: [s0,e0) [s1,n) + [0,e2)
        (s0, e0), (s1, e1), (s2, e2) = parts
        cs += [e0 < s1, s2 == 0, e2 < s0]
        if n is not None:
            cs.append(e1 == n)
    if shape == "b":
        # exons straddling the origin without touching it: join{[15:18), [1:4)}
        (s0, e0), (s1, e1) = parts
        cs += [e1 < s0]
    return L.And(cs)


def build(prefix, shape, v, strand=1):
    parts = shape_parts(prefix, shape, v)
    if strand == -1 and len(parts) > 1:
        parts = list(reversed(parts))  # biological order on the reverse strand
    return mkloc(parts, strand)


def model_parts(prefix, shape, v):
    return [(s, e) for s, e in shape_parts(prefix, shape, v)]


class Overlap(Harness):
    pid, name = "C04", "overlap_contains"
    functions = [M + "locations_overlap", M + "location_contains_other"]
    bound = "two locations, each simple / 2-3 ordered parts / origin-spanning 2-part; coordinates unbounded ints"
    outside = "more than 3 parts per location; fuzzy positions"

    def variants(self, tier):
        shapes = ["s", "j2", "o"] if tier == "quick" else ["s", "j2", "j3", "o"]
        return [{"a": a, "b": b} for a in shapes for b in shapes]

    def vars(self, var):
        d = {}
        d.update(shape_vars("a", var["a"]))
        d.update(shape_vars("b", var["b"]))
        d["n"] = "int"
        return d

    def pre(self, var, v):
        return L.And(shape_pre("a", var["a"], v, v["n"]), shape_pre("b", var["b"], v, v["n"]))

    def run(self, var, v):
        a = build("a", var["a"], v)
        b = build("b", var["b"], v)
        return [locations_overlap(a, b), location_contains_other(a, b)]

    def post(self, var, v, out):
        if is_raised(out):
            return [("no_raise", False)]
        pa, pb = model_parts("a", var["a"], v), model_parts("b", var["b"], v)
        return [("overlap_iff_share_base", L.Iff(out[0], overlap_parts(pa, pb))),
                ("contains_iff_partwise", L.Iff(out[1], contains_parts(pa, pb)))]


def ring_distance_spec(pa, pb, n):
    """0 when overlapping, else the smaller of the line gap and the gap across the origin (n given)"""
    cands = []
    for (s1, e1) in pa:
        for (s2, e2) in pb:
            cands.append(L.If(s2 >= e1, s2 - e1, s1 - e2))  # line gap of two disjoint intervals
    line = L.Min(cands)
    if n is None:
        return L.If(overlap_parts(pa, pb), 0, line)
    ring = []
    for (s1, e1) in pa:
        for (s2, e2) in pb:
            # going the other way round
            ring.append(L.If(s2 >= e1, s1 + n - e2, s2 + n - e1))
    return L.If(overlap_parts(pa, pb), 0, L.Min(line, L.Min(ring)))


class Distance(Harness):
    pid, name = "C04", "distance"
    functions = [M + "get_distance_between_locations", M + "locations_overlap",
                 "antismash.common.secmet.record:Record.get_distance_between_locations"]
    bound = "simple+simple, simple+origin-spanning 2-part (touching the origin or not); linear and circular with symbolic record length"
    outside = "distance between two multi-exon locations (documented on hull coordinates only)"

    def variants(self, tier):
        out = []
        for circ in (False, True):
            out.append({"a": "s", "b": "s", "circ": circ})
        out.append({"a": "s", "b": "o", "circ": True})
        out.append({"a": "o", "b": "s", "circ": True})
        out.append({"a": "o", "b": "o", "circ": True})
        out.append({"a": "s", "b": "b", "circ": True})
        out.append({"a": "b", "b": "s", "circ": True})
        return out

    def vars(self, var):
        d = {}
        d.update(shape_vars("a", var["a"]))
        d.update(shape_vars("b", var["b"]))
        d["n"] = "int"
        return d

    def pre(self, var, v):
        return L.And(shape_pre("a", var["a"], v, v["n"]), shape_pre("b", var["b"], v, v["n"]))

    def run(self, var, v):
        a = build("a", var["a"], v)
        b = build("b", var["b"], v)
        rec = mkrecord(v["n"], var["circ"])
        d1 = rec.get_distance_between_locations(a, b)
        d2 = rec.get_distance_between_locations(b, a)
        return [cn(d1), cn(d2)]

    def post(self, var, v, out):
        if is_raised(out):
            return [("no_raise", False)]
        pa, pb = model_parts("a", var["a"], v), model_parts("b", var["b"], v)
        want = ring_distance_spec(pa, pb, v["n"] if var["circ"] else None)
        return [("distance_is_shorter_way_round", out[0] == want), ("symmetric", out[0] == out[1])]


def covering_arcs(all_parts, n):
    """candidate covering arcs (length, covers-everything) over part starts / ends; wrapping ones need n"""
    starts = [p[0] for parts in all_parts for p in parts]
    ends = [p[1] for parts in all_parts for p in parts]
    cands = []
    for a in starts:
        for b in ends:
            plain = L.And(a < b, [L.And(a <= p[0], p[1] <= b) for parts in all_parts for p in parts])
            cands.append((b - a, plain))
            if n is not None:
                wrap = L.And(b <= a, [L.Or(p[0] >= a, p[1] <= b) for parts in all_parts for p in parts],
                             # an origin-spanning input is only covered if its own wrap is inside the arc
                             )
                cands.append((n - a + b, wrap))
    return cands


class Connect(Harness):
    pid, name = "C04", "connect"
    functions = [M + "connect_locations", M + "_merge_over_origin", M + "_is_wrapping_shorter",
                 M + "_split_sections_around_origin", M + "_reduce_parts_to_location",
                 M + "location_bridges_origin", M + "split_origin_bridging_location",
                 "antismash.common.secmet.record:Record.connect_locations"]
    bound = ("K <= 3 (quick) / 4 (thorough) simple locations, optionally one origin-spanning; a three-part origin-spanning location (two "
             "exons before the origin) of either strand alone or with a simple location; linear and circular")
    outside = "K > 4; other inputs with more than two parts"
    task_paths = 120

    def variants(self, tier):
        out = []
        kmax = 3 if tier == "quick" else 4
        for k in range(1, kmax + 1):
            out.append({"shapes": ["s"] * k, "circ": False})
            out.append({"shapes": ["s"] * k, "circ": True})
        for k in range(1, kmax):
            out.append({"shapes": ["o"] + ["s"] * (k), "circ": True})
            if k >= 1:
                out.append({"shapes": ["s"] * k + ["o"], "circ": True})
        # a spliced gene through the origin (two exons before it, one after), parts in the order of either strand
        for strand in (1, -1):
            out.append({"shapes": ["o3"], "circ": True, "strand": strand})
            out.append({"shapes": ["o3", "s"], "circ": True, "strand": strand})
        return out

    def vars(self, var):
        d = {"n": "int", "x": "int"}
        for i, sh in enumerate(var["shapes"]):
            d.update(shape_vars("l%d" % i, sh))
        return d

    def pre(self, var, v):
        return L.And([shape_pre("l%d" % i, sh, v, v["n"]) for i, sh in enumerate(var["shapes"])],
                     0 <= v["x"], v["x"] < v["n"])

    def run(self, var, v):
        locs = [build("l%d" % i, sh, v, var.get("strand", 1)) for i, sh in enumerate(var["shapes"])]
        rec = mkrecord(v["n"], var["circ"])
        res = rec.connect_locations(locs)
        again = rec.connect_locations([res])
        return [canon_loc(res), canon_loc(again)]

    def post(self, var, v, out):
        if is_raised(out):
            return [("no_raise", False)]
        n, x = v["n"], v["x"]
        res = out[0]
        all_parts = [model_parts("l%d" % i, sh, v) for i, sh in enumerate(var["shapes"])]
        flat = [p for parts in all_parts for p in parts]
        clauses = [("well_formed_span", wf_span(res, n)),
                   ("covers_inputs", L.Implies(in_parts(x, flat), in_parts(x, res))),
                   ("forward_strand", all(p[2] == 1 for p in res) if len(res) > 1 else True),
                   ("idempotent", L.And(len(out[1]) == len(res),
                                        [L.And(a[0] == b[0], a[1] == b[1]) for a, b in zip(res, out[1])]))]
        lo = L.Min([p[0] for p in flat])
        hi = L.Max([p[1] for p in flat])
        if not var["circ"]:
            clauses.append(("linear_exact_hull", L.And(len(res) == 1, res[0][0] == lo, res[0][1] == hi)))
        else:
            length = parts_len(res)
            if "o3" in var["shapes"]:
                # a spliced gene through the origin says itself which way round it goes (its intron is not a gap to jump
                # over): alone, its span is first exon start .. origin .. last exon end; the shortest-arc clauses do not apply
                if var["shapes"] == ["o3"]:
                    clauses.append(("span_follows_the_spliced_gene",
                                    L.And(len(res) == 2, res[0][0] == v["l0s0"], res[0][1] == n, res[1][0] == 0, res[1][1] == v["l0e2"])))
                return clauses
            spanning = "o" in var["shapes"]
            if not spanning:
                clauses.append(("ring_not_longer_than_hull", length <= hi - lo))
            if spanning:
                # the span has to pass the origin anyway, so it must be the shortest arc doing so
                clauses.append(("ring_minimal_when_an_input_spans_origin",
                                L.And([L.Implies(cov, length <= ln) for ln, cov in covering_arcs(all_parts, n)])))
            shortest = []
            for ln, cov in covering_arcs(all_parts, n):
                shortest.append(L.Implies(L.And(cov, 2 * ln < n), length <= ln))
            clauses.append(("ring_shortest_arc_when_under_half", L.And(shortest)))
        return clauses


class ConnectOrder(Harness):
    pid, name = "C04", "connect_order"
    functions = [M + "connect_locations", M + "_merge_over_origin"]
    bound = "K = 2..3 simple locations on a ring, every argument order"
    outside = "K > 3"

    def variants(self, tier):
        return [{"k": 2}, {"k": 3}]

    def vars(self, var):
        d = {"n": "int"}
        for i in range(var["k"]):
            d.update(shape_vars("l%d" % i, "s"))
        return d

    def pre(self, var, v):
        return L.And([shape_pre("l%d" % i, "s", v, v["n"]) for i in range(var["k"])])

    def run(self, var, v):
        outs = []
        for perm in itertools.permutations(range(var["k"])):
            locs = [build("l%d" % i, "s", v) for i in perm]
            outs.append(canon_loc(connect_locations(locs, wrap_point=v["n"])))
        return outs

    def post(self, var, v, out):
        if is_raised(out):
            return [("no_raise", False)]
        first = out[0]
        same = []
        for other in out[1:]:
            same.append(L.And(len(other) == len(first), [L.And(a[0] == b[0], a[1] == b[1]) for a, b in zip(first, other)]))
        return [("argument_order_irrelevant", L.And(same))]


HARNESSES = [Overlap(), Distance(), Connect(), ConnectOrder()]


def rot(x, off, n):
    return (x + off) % n


class Offset(Harness):
    pid, name = "C04", "offset"
    functions = [M + "offset_location", M + "FeatureLocation.clone", M + "CompoundLocation.clone"]
    bound = "1-part, 2-part exon and origin-spanning 2-part locations, either strand; offset in (-n, n); ring of symbolic length, and the no-wrap-point form"
    outside = "more than 2 parts; |offset| >= n"

    def variants(self, tier):
        out = []
        for sh in ("s", "j2", "o", "b"):
            for strand in (1, -1):
                out.append({"shape": sh, "strand": strand, "wrap": True})
        out.append({"shape": "s", "strand": 1, "wrap": False})
        out.append({"shape": "j2", "strand": -1, "wrap": False})
        return out

    def vars(self, var):
        d = {"n": "int", "x": "int", "off": "int"}
        d.update(shape_vars("a", var["shape"]))
        return d

    def pre(self, var, v):
        n, off, x = v["n"], v["off"], v["x"]
        c = [shape_pre("a", var["shape"], v, n), 0 <= x, x < n, -n < off, off < n]
        if not var["wrap"]:
            parts = shape_parts("a", var["shape"], v)
            c += [L.And(s + off >= 0, e + off <= n) for s, e in parts]
        return L.And(c)

    def run(self, var, v):
        a = build("a", var["shape"], v, var["strand"])
        res = offset_location(a, v["off"], wrap_point=v["n"] if var["wrap"] else None)
        return [canon_loc(res), cn(len(res)) if False else None, res.strand]

    def post(self, var, v, out):
        if is_raised(out):
            return [("no_raise", False)]
        n, off, x = v["n"], v["off"], v["x"]
        res = out[0]
        pa = model_parts("a", var["shape"], v)
        shifted = (x + off) % n if var["wrap"] else x + off
        return [("well_formed", wf_parts(res, n)),
                ("rotates_same_bases", L.Iff(in_parts(x, pa), in_parts(shifted, res))),
                ("keeps_length", parts_len(res) == parts_len(pa)),
                ("keeps_strand", out[2] == var["strand"] and all(p[2] == var["strand"] for p in res)),
                ("at_most_one_more_part", len(res) <= len(pa) + 1)]


class Extend(Harness):
    pid, name = "C04", "extend"
    functions = ["antismash.common.secmet.record:Record.extend_location", M + "locations_overlap"]
    bound = "simple and origin-spanning 2-part input, distance in [0, n]; linear and circular, symbolic record length"
    outside = "multi-exon inputs; distance > record length on a ring"

    def variants(self, tier):
        out = [{"shape": "s", "circ": False, "strand": 1}, {"shape": "s", "circ": True, "strand": 1},
               {"shape": "o", "circ": True, "strand": 1}, {"shape": "s", "circ": True, "strand": -1}]
        return out

    def vars(self, var):
        d = {"n": "int", "x": "int", "d": "int"}
        d.update(shape_vars("a", var["shape"]))
        return d

    def pre(self, var, v):
        n = v["n"]
        return L.And(shape_pre("a", var["shape"], v, n), 0 <= v["x"], v["x"] < n, 0 <= v["d"], v["d"] <= n)

    def run(self, var, v):
        rec = mkrecord(v["n"], var["circ"])
        a = build("a", var["shape"], v, var["strand"])
        res = rec.extend_location(a, v["d"])
        return [canon_loc(res)]

    def post(self, var, v, out):
        if is_raised(out):
            return [("no_raise", False)]
        n, x, d = v["n"], v["x"], v["d"]
        res = out[0]
        pa = model_parts("a", var["shape"], v)
        if not var["circ"]:
            within = L.Or([L.And(s - d <= x, x < e + d) for s, e in pa])
        else:
            # on the ring: x is within d of part [s,e) iff x, x-n or x+n falls in [s-d, e+d)
            within = L.Or([L.Or(L.And(s - d <= y, y < e + d) for y in (x, x - n, x + n)) for s, e in pa])
        ordered = res if var["strand"] != -1 else list(reversed(res))
        return [("well_formed", wf_parts(res, n)),
                ("exactly_bases_within_distance", L.Iff(in_parts(x, res), within)),
                ("at_most_two_parts_second_at_origin", wf_span(ordered, n) if len(res) <= 2 else False)]


def lt_key_spec(parts, n_unused=None):
    return None


class Ordering(Harness):
    pid, name = "C04", "ordering"
    functions = ["antismash.common.secmet.features.feature:Feature.__lt__",
                 M + "location_bridges_origin", M + "split_origin_bridging_location"]
    bound = "3 features, each simple or origin-spanning 2-part; strict weak order axioms"
    outside = "more than 3 features; features of type 'source' (documented tie rule)"

    def variants(self, tier):
        out = []
        for shapes in itertools.product(("s", "o"), repeat=3):
            if tier == "quick" and shapes.count("o") > 2:
                continue
            out.append({"shapes": list(shapes)})
        return out

    def vars(self, var):
        d = {"n": "int"}
        for i, sh in enumerate(var["shapes"]):
            d.update(shape_vars("f%d" % i, sh))
        return d

    def pre(self, var, v):
        return L.And([shape_pre("f%d" % i, sh, v, v["n"]) for i, sh in enumerate(var["shapes"])])

    def run(self, var, v):
        fs = [Feature(build("f%d" % i, sh, v), feature_type="misc") for i, sh in enumerate(var["shapes"])]
        return [[(True if a < b else False) if i != j else (True if a < a else False)
                 for j, b in enumerate(fs)] for i, a in enumerate(fs)]

    def post(self, var, v, out):
        if is_raised(out):
            return [("no_raise", False)]
        lt = out
        k = len(lt)
        irreflexive = L.And([L.Not(lt[i][i]) for i in range(k)])
        asym = L.And([L.Not(L.And(lt[i][j], lt[j][i])) for i in range(k) for j in range(k) if i != j])
        trans = L.And([L.Implies(L.And(lt[i][j], lt[j][l]), lt[i][l])
                       for i in range(k) for j in range(k) for l in range(k) if len({i, j, l}) == 3])
        # incomparability is transitive (needed for sorted()/bisect to be meaningful)
        inc = [[L.And(L.Not(lt[i][j]), L.Not(lt[j][i])) for j in range(k)] for i in range(k)]
        inctrans = L.And([L.Implies(L.And(inc[i][j], inc[j][l]), inc[i][l])
                          for i in range(k) for j in range(k) for l in range(k) if len({i, j, l}) == 3])
        return [("irreflexive", irreflexive), ("asymmetric", asym), ("transitive", trans),
                ("incomparability_transitive", inctrans)]


class TextRoundTrip(Harness):
    pid, name = "C04", "text_roundtrip"
    functions = [M + "location_from_string", "Bio.SeqFeature:SimpleLocation.__str__", "Bio.SeqFeature:CompoundLocation.__str__"]
    bound = "simple, 2-part exon and origin-spanning locations, strands +/-/none; integers rendered through identity-preserving tokens (symbolic) and real digits (replay)"
    outside = "fuzzy positions; more than 2 parts"

    def variants(self, tier):
        return [{"shape": sh, "strand": st} for sh in ("s", "j2", "o") for st in (1, -1, None)
                if not (st is None and sh != "s")]

    def vars(self, var):
        d = {"n": "int"}
        d.update(shape_vars("a", var["shape"]))
        return d

    def pre(self, var, v):
        return shape_pre("a", var["shape"], v, v["n"])

    def run(self, var, v):
        a = build("a", var["shape"], v, var["strand"])
        b = location_from_string(str(a))
        return [canon_loc(a), canon_loc(b), type(a).__name__ == type(b).__name__,
                getattr(a, "operator", None) == getattr(b, "operator", None)]

    def post(self, var, v, out):
        if is_raised(out):
            return [("no_raise", False)]
        a, b = out[0], out[1]
        return [("same_location", L.And(len(a) == len(b), out[2], out[3],
                                        [L.And(p[0] == q[0], p[1] == q[1], p[2] == q[2]) for p, q in zip(a, b)]))]


HARNESSES = [Overlap(), Distance(), Connect(), ConnectOrder(), Offset(), Extend(), Ordering(), TextRoundTrip()]


class Helpers(Harness):
    pid, name = "C04", "helpers"
    functions = [M + "make_forwards", M + "remove_redundant_exons", M + "build_location_from_others", M + "location_bridges_origin",
                 M + "split_origin_bridging_location", M + "location_contains_overlapping_exons"]
    bound = "locations of 2-3 parts (ordered exons, origin-bridging, or arbitrary possibly nested parts for redundancy removal), either strand"
    outside = "more than 3 parts; mixed strands"

    def variants(self, tier):
        out = []
        for shape in ("j2", "j3", "o", "b"):
            for strand in (1, -1):
                out.append({"fn": "make_forwards", "shape": shape, "strand": strand})
                out.append({"fn": "bridges", "shape": shape, "strand": strand})
        for k in (2, 3):
            out.append({"fn": "redundant", "k": k})
            out.append({"fn": "build", "k": k})
        return out

    def vars(self, var):
        d = {"n": "int", "x": "int"}
        if var["fn"] in ("make_forwards", "bridges"):
            d.update(shape_vars("a", var["shape"]))
        else:
            for i in range(var["k"]):
                d["s%d" % i] = "int"
                d["e%d" % i] = "int"
        return d

    def pre(self, var, v):
        n = v["n"]
        c = [0 <= v["x"], v["x"] < n]
        if var["fn"] in ("make_forwards", "bridges"):
            c.append(shape_pre("a", var["shape"], v, n))
        else:
            for i in range(var["k"]):
                c += [0 <= v["s%d" % i], v["s%d" % i] < v["e%d" % i], v["e%d" % i] <= n]
            if var["fn"] == "build":
                # non-overlapping locations in ascending order (touching allowed: they are merged)
                c += [v["e%d" % i] <= v["s%d" % (i + 1)] for i in range(var["k"] - 1)]
        return L.And(c)

    def run(self, var, v):
        if var["fn"] == "make_forwards":
            loc = build("a", var["shape"], v, var["strand"])
            res = loc_mod.make_forwards(loc)
            return {"parts": canon_loc(res), "input": canon_loc(loc)}
        if var["fn"] == "bridges":
            loc = build("a", var["shape"], v, var["strand"])
            bridging = loc_mod.location_bridges_origin(loc)
            out = {"bridging": bridging}
            if bridging:
                lower, upper = loc_mod.split_origin_bridging_location(loc)
                out["lower"] = [(cn(p.start), cn(p.end)) for p in lower]
                out["upper"] = [(cn(p.start), cn(p.end)) for p in upper]
            return out
        parts = [(v["s%d" % i], v["e%d" % i]) for i in range(var["k"])]
        if var["fn"] == "redundant":
            res = loc_mod.remove_redundant_exons(mkloc(parts, 1))
        else:
            res = loc_mod.build_location_from_others([FeatureLocation(s, e, 1) for s, e in parts])
        return {"parts": canon_loc(res)}

    def post(self, var, v, out):
        if is_raised(out):
            return [("no_raise", False)]
        x = v["x"]
        if var["fn"] == "make_forwards":
            src = model_parts("a", var["shape"], v)
            want_order = [(s, e) for s, e in src]     # biological order of the forward strand
            res = out["parts"]
            return [("same_bases", L.Iff(in_parts(x, src), in_parts(x, res))),
                    ("forward_strand", all(p[2] == 1 for p in res)),
                    ("parts_in_forward_reading_order", L.And(len(res) == len(want_order),
                                                             [L.And(a[0] == b[0], a[1] == b[1]) for a, b in zip(res, want_order)]))]
        if var["fn"] == "bridges":
            expect = var["shape"] in ("o", "b")
            cl = [("bridging_detected_iff_parts_out_of_strand_order", out["bridging"] == expect)]
            if out["bridging"] and expect:
                src = model_parts("a", var["shape"], v)
                cl.append(("split_is_a_partition", L.And(len(out["lower"]) + len(out["upper"]) == len(src),
                                                         L.Iff(in_parts(x, src), L.Or(in_parts(x, out["lower"]), in_parts(x, out["upper"]))))))
                cl.append(("lower_section_lies_before_upper", L.And([lo[1] <= up[0] for lo in out["lower"] for up in out["upper"]])))
            return cl
        parts = [(v["s%d" % i], v["e%d" % i]) for i in range(var["k"])]
        res = out["parts"]
        if var["fn"] == "redundant":
            return [("same_bases", L.Iff(in_parts(x, parts), in_parts(x, res))),
                    ("no_kept_exon_inside_another", L.And([L.Not(L.And(a[0] >= b[0], a[1] <= b[1])) for a in res for b in res if a is not b]))]
        return [("same_bases", L.Iff(in_parts(x, parts), in_parts(x, res))),
                ("touching_locations_merged", L.And([a[1] < b[0] for a, b in zip(res, res[1:])]))]


HARNESSES = [Overlap(), Distance(), Connect(), ConnectOrder(), Offset(), Extend(), Ordering(), TextRoundTrip(), Helpers()]
