"""C19 - region overview layout data is complete, non-overlapping and in range."""
import itertools

from antismash.common.secmet.features import SubRegion
from antismash.common.secmet.features.protocluster import Protocluster
from antismash.outputs.html import area_packing as ap

from .. import logic as L
from .c04 import build, model_parts, shape_pre, shape_vars
from .common import Harness, cn, contains_parts, in_parts, is_raised, mkrecord, overlap_parts

AP = "antismash.outputs.html.area_packing:"

# set iteration order of protocluster sets pinned to the product name (see C05)
Protocluster.__hash__ = lambda self: hash(self.product)


class AreaRows(Harness):
    pid, name = "C19", "area_rows"
    functions = [AP + "build_area_rows", AP + "pack", AP + "Row.can_fit", AP + "Row.add", AP + "adjust_cross_origin_area",
                 AP + "Area.from_feature", AP + "Area.to_minimal_json",
                 "antismash.common.secmet.features.region.structures:Region.get_unique_protoclusters",
                 "antismash.common.secmet.record:Record.create_candidate_clusters", "antismash.common.secmet.record:Record.create_regions"]
    bound = ("regions built by the real formation code from <= 2 protoclusters (quick: two protoclusters only without subregion and without origin-spanning core; never an origin-spanning protocluster together with a second one and a subregion) (core inside extent; extent and optionally core spanning "
             "the origin) and an optional subregion, symbolic coordinates and record length; linear, circular, origin-spanning and "
             "whole-record regions")
    outside = "more than 2 protoclusters / 1 subregion; genes (convert_cds_features needs the HTML description builders); HTML"
    stubs = ["Protocluster.__hash__ pinned to hash(product) (set iteration order)"]
    task_paths = 150

    def variants(self, tier):
        out = []
        for shapes in (["s"], ["s", "s"], ["oe"], ["oc"], ["oe", "s"], ["oc", "s"]):
            for sub in (False, True):
                if tier == "quick" and len(shapes) == 2 and (sub or shapes[0] == "oc"):
                    continue   # two protoclusters plus a subregion: thorough tier
                if len(shapes) == 2 and sub and shapes[0] != "s":
                    continue   # an origin-spanning protocluster, a second one and a subregion: ~10^5 paths, not registered
                circ = any(sh != "s" for sh in shapes)
                out.append({"shapes": shapes, "sub": sub, "circ": circ})
                if not circ and len(shapes) == 1:
                    out.append({"shapes": shapes, "sub": sub, "circ": True})
        return out

    def vars(self, var):
        d = {"n": "int", "x": "int"}
        for i, sh in enumerate(var["shapes"]):
            d.update(shape_vars("e%d" % i, "o" if sh in ("oe", "oc") else "s"))
            d.update(shape_vars("c%d" % i, "o" if sh == "oc" else "s"))
        if var["sub"]:
            d.update(shape_vars("r", "s"))
        return d

    def parts(self, var, v, i):
        sh = var["shapes"][i]
        return (model_parts("c%d" % i, "o" if sh == "oc" else "s", v), model_parts("e%d" % i, "o" if sh in ("oe", "oc") else "s", v))

    def pre(self, var, v):
        n = v["n"]
        c = [0 <= v["x"], v["x"] < n]
        for i, sh in enumerate(var["shapes"]):
            c.append(shape_pre("e%d" % i, "o" if sh in ("oe", "oc") else "s", v, n))
            c.append(shape_pre("c%d" % i, "o" if sh == "oc" else "s", v, n))
            core, ext = self.parts(var, v, i)
            c.append(contains_parts(ext, core))
            if sh == "oc":
                c.append(L.And(ext[0][0] <= core[0][0], core[1][1] <= ext[1][1]))
        if var["sub"]:
            c.append(shape_pre("r", "s", v, n))
        return L.And(c)

    def run(self, var, v):
        n = v["n"]
        rec = mkrecord(n, var["circ"])
        for i, sh in enumerate(var["shapes"]):
            core = build("c%d" % i, "o" if sh == "oc" else "s", v)
            ext = build("e%d" % i, "o" if sh in ("oe", "oc") else "s", v)
            rec.add_protocluster(Protocluster(core, ext, tool="test", product="p%d" % i, cutoff=1, neighbourhood_range=0,
                                              detection_rule="r"))
        rec.create_candidate_clusters()
        if var["sub"]:
            rec.add_subregion(SubRegion(build("r", "s", v), tool="test", label="sub"))
        rec.create_regions()
        out = []
        for region in rec.get_regions():
            rows = ap.build_area_rows(region, n, circular=var["circ"])
            areas = []
            groups = {}
            for a in rows:
                gid = a.get("group", 0)
                if gid:
                    groups.setdefault(gid, len(groups) + 1)
                areas.append({"kind": a["kind"], "product": a.get("product", ""), "height": a["height"], "group": a.get("group", 0) != 0,
                              "group_id": groups.get(gid, 0),
                              "start": cn(a["start"]), "end": cn(a["end"]),
                              "ns": cn(a.get("neighbouring_start", a["start"])), "ne": cn(a.get("neighbouring_end", a["end"]))})
            cands = []
            for cand in region.candidate_clusters:
                if region.subregions or cand.kind != cand.kinds.SINGLE:
                    cands.append({"label": "CC %d: %s" % (cand.get_candidate_cluster_number(), cand.kind),
                                  "members": sorted(int(p.product[1:]) for p in cand.protoclusters)})
            out.append({"crosses": region.crosses_origin(), "start": cn(region.start), "end": cn(region.end),
                        "protos": sorted(int(p.product[1:]) for p in region.get_unique_protoclusters()),
                        "cands": cands, "subs": len(region.subregions), "areas": areas})
        return out

    def post(self, var, v, out):
        if is_raised(out):
            return [("no_raise", False)]
        n, x = v["n"], v["x"]
        cl = []
        for reg in out:
            crosses = reg["crosses"]
            rstart = reg["start"]
            rend = (reg["end"] + n) if crosses else reg["end"]
            whole = L.And(var["circ"], reg["start"] == 0, reg["end"] == n) if not crosses else False
            # drawing coordinate of genome position x
            mapped = L.If(L.And(crosses, x < rstart), x + n, x) if crosses else x
            areas = reg["areas"]
            for a, b in itertools.combinations(areas, 2):
                if a["height"] == b["height"]:
                    cl.append(("same_row_areas_do_not_overlap", L.Or(a["ne"] <= b["ns"], b["ne"] <= a["ns"])))
            for a in areas:
                cl.append(("extent_within_announced_range", L.And(rstart <= a["ns"], a["ne"] <= rend, a["ns"] <= a["ne"])))
                if a["kind"] == "protocluster":
                    cl.append(("core_inside_own_extent", L.And(a["ns"] <= a["start"], a["start"] <= a["end"], a["end"] <= a["ne"])))
            wanted = []
            for i in reg["protos"]:
                core, ext = self.parts(var, v, i)
                wanted.append(("protocluster", "p%d" % i, ext, core))
            for c in reg["cands"]:
                exts = [p for m in c["members"] for p in self.parts(var, v, m)[1]]
                wanted.append(("candidatecluster", c["label"], exts, None))
            if reg["subs"]:
                wanted.append(("subregion", "sub", model_parts("r", "s", v), None))
            for kind, label, ext, core in wanted:
                named = [a for a in areas if a["kind"] == kind and a["product"] == label]
                linked = {a["group_id"] for a in named if a["group_id"]}
                drawn = named + [a for a in areas if a["kind"] == kind and a["product"] == "" and a["group_id"] in linked]
                cl.append(("drawn_once_or_as_two_linked_halves",
                           len(named) >= 1 and len(drawn) in (1, 2) and (len(drawn) == 1 or (all(a["group"] for a in drawn)
                                                                                            and len({a["group_id"] for a in drawn}) == 1))))
                if kind != "candidatecluster":
                    cl.append(("drawn_extent_is_the_feature_extent_in_drawing_order",
                               L.Iff(in_parts(x, ext), L.Or([L.And(a["ns"] <= mapped, mapped < a["ne"]) for a in drawn] or [False]))))
                if core is not None:
                    cl.append(("drawn_core_is_the_feature_core_in_drawing_order",
                               L.Iff(in_parts(x, core), L.Or([L.And(a["start"] <= mapped, mapped < a["end"]) for a in drawn] or [False]))))
        return cl


HARNESSES = [AreaRows()]


class GeneCoordinates(Harness):
    pid, name = "C19", "gene_coordinates"
    functions = ["antismash.outputs.html.js:convert_cds_features"]
    bound = ("a region made of one subregion (simple, origin-spanning or the whole circular record) containing one gene (simple or "
             "origin-spanning, either strand); symbolic coordinates and record length")
    outside = "gene descriptions / sequences (get_description stubbed, sequence content empty); several genes (handled one by one by the code)"
    stubs = ["js.get_description replaced by an empty string; record sequence carries only a length"]

    def variants(self, tier):
        out = []
        for rshape in ("s", "o", "whole"):
            for gshape in ("s", "o"):
                if gshape == "o" and rshape == "s":
                    continue
                for strand in (1, -1):
                    out.append({"region": rshape, "gene": gshape, "strand": strand})
        return out

    def vars(self, var):
        d = {"n": "int", "x": "int"}
        if var["region"] != "whole":
            d.update(shape_vars("r", var["region"]))
        d.update(shape_vars("g", var["gene"]))
        return d

    def region_parts(self, var, v):
        if var["region"] == "whole":
            return [(0, v["n"])]
        return model_parts("r", var["region"], v)

    def pre(self, var, v):
        n = v["n"]
        c = [0 <= v["x"], v["x"] < n, n >= 2, shape_pre("g", var["gene"], v, n)]
        if var["region"] != "whole":
            c.append(shape_pre("r", var["region"], v, n))
        c.append(contains_parts(self.region_parts(var, v), model_parts("g", var["gene"], v)))
        return L.And(c)

    def run(self, var, v):
        from antismash.common.secmet.locations import FeatureLocation
        from antismash.common.secmet.test.helpers import DummyCDS
        from antismash.outputs.html import js
        n = v["n"]
        rec = mkrecord(n, var["region"] != "s")
        gene = DummyCDS(location=build("g", var["gene"], v, var["strand"]), locus_tag="gene", translation="A")
        rec.add_cds_feature(gene)
        loc = FeatureLocation(0, n, 1) if var["region"] == "whole" else build("r", var["region"], v)
        rec.add_subregion(SubRegion(loc, tool="test", label="sub"))
        rec.create_regions()
        region = rec.get_regions()[0]
        orig = js.get_description
        js.get_description = lambda *a, **k: ""
        try:
            orfs = js.convert_cds_features(rec, region.cds_children, None, {}, region)
        finally:
            js.get_description = orig
        return {"crosses": region.crosses_origin(), "start": cn(region.start), "end": cn(region.end),
                "orfs": [{"start": cn(o["start"]), "end": cn(o["end"]), "strand": o["strand"], "group": "group" in o} for o in orfs]}

    def post(self, var, v, out):
        if is_raised(out):
            return [("no_raise", False)]
        n, x = v["n"], v["x"]
        crosses = out["crosses"]
        rstart = out["start"]
        rend = (out["end"] + n) if crosses else out["end"]
        mapped = L.If(L.And(crosses, x < rstart), x + n, x) if crosses else x
        gene = model_parts("g", var["gene"], v)
        orfs = out["orfs"]
        cl = [("gene_drawn_once_or_as_two_linked_halves", len(orfs) in (1, 2) and (len(orfs) == 1 or all(o["group"] for o in orfs)))]
        for o in orfs:
            # start is 1-based inclusive, end 0-based exclusive
            cl.append(("gene_within_announced_range", L.And(rstart <= o["start"] - 1, o["start"] - 1 < o["end"], o["end"] <= rend)))
        cl.append(("drawn_gene_is_the_gene_in_drawing_order",
                   L.Iff(in_parts(x, gene), L.Or([L.And(o["start"] - 1 <= mapped, mapped < o["end"]) for o in orfs]))))
        return cl



class PackRows(Harness):
    """pack() on its own with more areas than the region harness affords (a row keeps track of a single free stretch only)"""
    pid, name = "C19", "pack_rows"
    functions = ["antismash.outputs.html.area_packing:pack", "antismash.outputs.html.area_packing:Row.can_fit",
                 "antismash.outputs.html.area_packing:Row.add", "antismash.common.secmet.features.feature:Feature.__lt__",
                 "antismash.common.secmet.features.region.structures:Region.get_unique_protoclusters"]
    bound = ("K = 3 areas (protoclusters, extent = core) in the order Region.get_unique_protoclusters supplies them, each simple or "
             "origin-spanning, symbolic coordinates and record length")
    outside = "K > 3; the conversion of the packed rows to drawing coordinates (area_rows)"
    task_paths = 200

    def variants(self, tier):
        combos = [["s", "s", "s"], ["o", "s", "s"], ["o", "o", "s"], ["o", "o", "o"]]
        return [{"shapes": c} for c in combos]

    def vars(self, var):
        d = {"n": "int"}
        for i, sh in enumerate(var["shapes"]):
            d.update(shape_vars("a%d" % i, sh))
        return d

    def pre(self, var, v):
        return L.And([shape_pre("a%d" % i, sh, v, v["n"]) for i, sh in enumerate(var["shapes"])])

    def run(self, var, v):
        from antismash.common.secmet.features import CandidateCluster, Region
        from antismash.common.secmet.features.candidate_cluster import CandidateClusterKind
        from antismash.outputs.html.area_packing import pack
        Protocluster.__hash__ = lambda self: hash(self.product)
        n = v["n"]
        circ = "o" in var["shapes"]
        areas = [Protocluster(build("a%d" % i, sh, v), build("a%d" % i, sh, v), tool="test", product="p%d" % i, cutoff=1,
                              neighbourhood_range=0, detection_rule="r") for i, sh in enumerate(var["shapes"])]
        # the order in which a region hands its protoclusters to pack()
        region = Region([CandidateCluster(CandidateClusterKind.SINGLE, [a], circular_wrap_point=n if circ else None) for a in areas])
        rows = pack(region.get_unique_protoclusters())
        return [[areas.index(a) for a in row.contents] for row in rows]

    def post(self, var, v, out):
        if is_raised(out):
            return [("no_raise", False)]
        k = len(var["shapes"])
        parts = [model_parts("a%d" % i, sh, v) for i, sh in enumerate(var["shapes"])]
        flat = sorted(i for row in out for i in row)
        cl = [("every_area_drawn_exactly_once", flat == list(range(k)))]
        for row in out:
            for a, b in itertools.combinations(row, 2):
                cl.append(("same_row_areas_do_not_overlap", L.Not(overlap_parts(parts[a], parts[b]))))
        return cl

    def klass(self, var, out):
        if is_raised(out):
            return "raised:" + out.etype
        return "rows:%d" % len(out)

    def expected_classes(self, var):
        return {"rows:3"}


HARNESSES = [AreaRows(), GeneCoordinates(), PackRows()]
