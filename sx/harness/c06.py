"""C06 - regions are the disjoint connected components of overlapping areas."""
import itertools

from antismash.common.secmet.features import CandidateCluster, SubRegion
from antismash.common.secmet.features.candidate_cluster import CandidateClusterKind
from antismash.common.secmet.test.helpers import DummyCDS, DummyProtocluster
from antismash.common.secmet.features.protocluster import Protocluster

from .. import logic as L
from .c04 import build, model_parts, shape_pre, shape_vars
from .common import (Harness, canon_loc, cn, contains_parts, in_parts, is_raised, mkrecord, overlap_parts,
                     wf_span)

R = "antismash.common.secmet.record:Record."


def make_area(kind, name, shape, v, n, circ):
    loc = build(name, shape, v)
    if kind == "S":
        return SubRegion(loc, tool="test")
    proto = Protocluster(loc, loc, tool="test", product="p" + name, cutoff=1, neighbourhood_range=0,
                         detection_rule="r")
    return CandidateCluster(CandidateClusterKind.SINGLE, [proto], circular_wrap_point=n if circ else None)


class CreateRegions(Harness):
    pid, name = "C06", "create_regions"
    functions = [R + "create_regions", R + "add_region", R + "add_subregion", R + "add_candidate_cluster",
                 "antismash.common.secmet.features.region.structures:Region.__init__",
                 "antismash.common.secmet.features.cdscollection:CDSCollection.__lt__",
                 "antismash.common.secmet.locations:connect_locations"]
    bound = ("A <= 3 areas, each a subregion or a single-protocluster candidate cluster, simple or origin-spanning, symbolic coordinates "
             "and record length, linear and circular; A = 4 supplied by ascending start (linear; ring with the first area origin-spanning): "
             "quick four subregions, thorough also alternating candidate clusters and subregions")
    outside = "A > 4; candidate clusters with several protoclusters (their location is still one span)"
    task_paths = 150

    def variants(self, tier):
        out = []
        amax = 3 if tier == "quick" else 4
        for a in range(1, amax + 1):
            for kinds in itertools.product("SC", repeat=a):
                if tier == "quick" and a == 3 and kinds not in (("S", "S", "S"), ("C", "S", "C"), ("C", "C", "C")):
                    continue
                if tier == "thorough" and a == 4 and kinds not in (("S", "S", "S", "S"), ("C", "S", "C", "S")):
                    continue
                if a == 4:
                    # four free areas cost ~10^4 paths per variant: supplied by ascending start, origin-spanning area first
                    out.append({"kinds": list(kinds), "shapes": ["s"] * a, "circ": False, "sorted": True})
                    out.append({"kinds": list(kinds), "shapes": ["o"] + ["s"] * (a - 1), "circ": True, "sorted": True})
                    continue
                out.append({"kinds": list(kinds), "shapes": ["s"] * a, "circ": False})
                out.append({"kinds": list(kinds), "shapes": ["s"] * a, "circ": True})
                for pos in range(a):
                    shapes = ["s"] * a
                    shapes[pos] = "o"
                    out.append({"kinds": list(kinds), "shapes": shapes, "circ": True})
                if a >= 2:
                    out.append({"kinds": list(kinds), "shapes": ["o", "o"] + ["s"] * (a - 2), "circ": True})
        if tier == "quick":
            # one 4-area layout class on a linear record (nested + chained + independent needs four areas)
            out.append({"kinds": ["S"] * 4, "shapes": ["s"] * 4, "circ": False, "sorted": True})
            # ... and one on a ring: an origin-spanning area and three others (two separate areas inside its part before the
            # origin, with an unrelated area in between, need four)
            out.append({"kinds": ["S"] * 4, "shapes": ["o", "s", "s", "s"], "circ": True, "sorted": True})
        return out

    def vars(self, var):
        d = {"n": "int", "x": "int"}
        for i, sh in enumerate(var["shapes"]):
            d.update(shape_vars("a%d" % i, sh))
        return d

    def pre(self, var, v):
        n = v["n"]
        c = [shape_pre("a%d" % i, sh, v, n) for i, sh in enumerate(var["shapes"])] + [0 <= v["x"], v["x"] < n]
        if var.get("sorted"):
            # symmetry breaking for the 4-area variant: areas supplied by ascending start
            simple = [i for i, sh in enumerate(var["shapes"]) if sh == "s"]
            for i, j in zip(simple, simple[1:]):
                c.append(v["a%ds0" % i] <= v["a%ds0" % j])
        return L.And(c)

    def run(self, var, v):
        n = v["n"]
        rec = mkrecord(n, var["circ"])
        areas = [make_area(k, "a%d" % i, sh, v, n, var["circ"])
                 for i, (k, sh) in enumerate(zip(var["kinds"], var["shapes"]))]
        for area in areas:
            if isinstance(area, SubRegion):
                rec.add_subregion(area)
            else:
                rec.add_protocluster(area.protoclusters[0])
                rec.add_candidate_cluster(area)
        count = rec.create_regions()
        regions = rec.get_regions()
        out = []
        for idx, region in enumerate(regions):
            members = sorted(areas.index(a) for a in list(region.candidate_clusters) + list(region.subregions))
            out.append({"loc": canon_loc(region.location), "members": members,
                        "number": rec.get_region_number(region), "index": idx,
                        "parents_ok": all(areas[m].parent is region for m in members)})
        return {"count": count, "regions": out}

    def post(self, var, v, out):
        if is_raised(out):
            return [("creation_succeeds", False)]
        n, x = v["n"], v["x"]
        k = len(var["shapes"])
        parts = [model_parts("a%d" % i, sh, v) for i, sh in enumerate(var["shapes"])]
        regions = out["regions"]
        cl = [("count_matches", out["count"] == len(regions))]
        region_of = {}
        for r in regions:
            for m in r["members"]:
                region_of.setdefault(m, []).append(r["index"])
        cl.append(("every_area_in_exactly_one_region", all(len(region_of.get(i, [])) == 1 for i in range(k))))
        if not all(len(region_of.get(i, [])) == 1 for i in range(k)):
            return cl
        rel = [[overlap_parts(parts[i], parts[j]) if i != j else True for j in range(k)] for i in range(k)]
        reach = L.closure(k, rel)
        same = []
        for i in range(k):
            for j in range(i + 1, k):
                same.append(L.Iff(region_of[i][0] == region_of[j][0], reach[i][j]))
        cl.append(("same_region_iff_chain_of_overlaps", L.And(same)))
        disjoint = []
        for a, b in itertools.combinations(regions, 2):
            disjoint.append(L.Not(overlap_parts(a["loc"], b["loc"])))
        cl.append(("regions_disjoint", L.And(disjoint)))
        for r in regions:
            union = L.Or([in_parts(x, parts[m]) for m in r["members"]])
            cl.append(("region_is_span_of_its_component", L.And(wf_span(r["loc"], n), L.Iff(in_parts(x, r["loc"]), union))))
            cl.append(("numbered_in_order", r["number"] == r["index"] + 1))
            cl.append(("parent_links", r["parents_ok"]))
        return cl


class Histories(Harness):
    pid, name = "C06", "histories"
    functions = [R + "add_subregion", R + "add_protocluster", R + "add_candidate_cluster", R + "create_regions",
                 R + "clear_regions", R + "clear_subregions", R + "clear_candidate_clusters", R + "clear_protoclusters",
                 R + "add_cds_feature", R + "_link_cds_to_parent"]
    bound = ("one subregion, one single-protocluster candidate cluster, one gene (symbolic coordinates, linear record); every "
             "sequence of <= 3 (quick) / 4 (thorough) operations from {clear_subregions, clear_candidate_clusters, clear_protoclusters, "
             "clear_regions, create_regions, re-add subregion, re-add candidate} after the initial add + create")
    outside = "longer histories; several areas of one kind"
    OPS = ["clrS", "clrC", "clrP", "clrR", "create", "addS", "addC"]

    def variants(self, tier):
        depth = 3 if tier == "quick" else 4
        out = []
        for d in range(1, depth + 1):
            for seq in itertools.product(self.OPS, repeat=d):
                # re-adding something still present is not a legal history
                ok, has_s, has_c = True, True, True
                for op in seq:
                    if op == "clrS":
                        has_s = False
                    elif op in ("clrC", "clrP"):
                        has_c = False
                    elif op == "addS":
                        ok, has_s = ok and not has_s, True
                    elif op == "addC":
                        ok, has_c = ok and not has_c, True
                if ok:
                    out.append({"ops": list(seq)})
        return out

    def vars(self, var):
        d = {"n": "int"}
        for nm in ("sr", "cc", "g"):
            d.update(shape_vars(nm, "s"))
        return d

    def pre(self, var, v):
        return L.And([shape_pre(nm, "s", v, v["n"]) for nm in ("sr", "cc", "g")])

    def run(self, var, v):
        n = v["n"]
        rec = mkrecord(n, False)
        gene = DummyCDS(location=build("g", "s", v), locus_tag="g", translation="A")
        rec.add_cds_feature(gene)
        sub = make_area("S", "sr", "s", v, n, False)
        cand = make_area("C", "cc", "s", v, n, False)
        proto = cand.protoclusters[0]
        rec.add_subregion(sub)
        rec.add_protocluster(proto)
        rec.add_candidate_cluster(cand)
        rec.create_regions()
        for op in var["ops"]:
            if op == "clrS":
                rec.clear_subregions()
            elif op == "clrC":
                rec.clear_candidate_clusters()
            elif op == "clrP":
                rec.clear_protoclusters()
            elif op == "clrR":
                rec.clear_regions()
            elif op == "create":
                rec.clear_regions()
                rec.create_regions()
            elif op == "addS":
                rec.add_subregion(sub)
            elif op == "addC":
                if proto not in rec.get_protoclusters():
                    rec.add_protocluster(proto)
                rec.add_candidate_cluster(cand)
        regions = rec.get_regions()

        def in_record(region):
            return any(region is r for r in regions)

        def stale(area):
            return area.parent is not None and not in_record(area.parent)
        members = {}
        for idx, r in enumerate(regions):
            for a in r.subregions:
                members.setdefault("S" if a is sub else "?", []).append(idx)
            for a in r.candidate_clusters:
                members.setdefault("C" if a is cand else "?", []).append(idx)
        return {"stale_sub": stale(sub), "stale_cand": stale(cand),
                "stale_gene": gene.region is not None and not in_record(gene.region),
                "gene_region": (list(regions).index(gene.region) if gene.region is not None and in_record(gene.region) else -1),
                "regions": [canon_loc(r.location) for r in regions], "members": members,
                "numbers": [rec.get_region_number(r) for r in regions],
                "sub_in_record": sub in rec.get_subregions(), "cand_in_record": cand in rec.get_candidate_clusters(),
                "sub_parent": (list(regions).index(sub.parent) if sub.parent is not None and in_record(sub.parent) else -1),
                "cand_parent": (list(regions).index(cand.parent) if cand.parent is not None and in_record(cand.parent) else -1)}

    def post(self, var, v, out):
        if is_raised(out):
            return [("no_raise", False)]
        cl = [("no_stale_parent_links", not (out["stale_sub"] or out["stale_cand"] or out["stale_gene"])),
              ("numbered_in_order", out["numbers"] == list(range(1, len(out["regions"]) + 1)))]
        # an area that is in a region points to exactly that region
        for key, pkey in (("S", "sub_parent"), ("C", "cand_parent")):
            idxs = out["members"].get(key, [])
            cl.append(("area_in_at_most_one_region", len(idxs) <= 1))
            if len(idxs) == 1:
                cl.append(("parent_is_the_region_listing_it", out[pkey] == idxs[0]))
        for a, b in itertools.combinations(out["regions"], 2):
            cl.append(("regions_disjoint", L.Not(overlap_parts(a, b))))
        g = model_parts("g", "s", v)
        for idx, loc in enumerate(out["regions"]):
            cl.append(("gene_points_to_containing_region", L.Iff(out["gene_region"] == idx, contains_parts(loc, g))))
        return cl


HARNESSES = [CreateRegions(), Histories()]
