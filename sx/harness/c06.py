"""C06 - regions are the disjoint connected components of overlapping areas."""
import itertools

from antismash.common.secmet.features import CandidateCluster, SubRegion
from antismash.common.secmet.features.candidate_cluster import CandidateClusterKind
from antismash.common.secmet.test.helpers import DummyCDS, DummyProtocluster
from antismash.common.secmet.features.protocluster import Protocluster

from .. import logic as L
from .c04 import build, model_parts, shape_pre, shape_vars
from .common import (Harness, canon_loc, cn, contains_parts, in_parts, is_raised, mkrecord, overlap_parts,
                     wf_span)

R = "antismash.common.secmet.record:Record."


def make_area(kind, name, shape, v, n, circ):
    loc = build(name, shape, v)
    if kind == "S":
        return SubRegion(loc, tool="test")
    proto = Protocluster(loc, loc, tool="test", product="p" + name, cutoff=1, neighbourhood_range=0,
                         detection_rule="r")
    return CandidateCluster(CandidateClusterKind.SINGLE, [proto], circular_wrap_point=n if circ else None)


class CreateRegions(Harness):
    pid, name = "C06", "create_regions"
    functions = [R + "create_regions", R + "add_region", R + "add_subregion", R + "add_candidate_cluster",
                 "antismash.common.secmet.features.region.structures:Region.__init__",
                 "antismash.common.secmet.features.cdscollection:CDSCollection.__lt__",
                 "antismash.common.secmet.locations:connect_locations"]
    bound = "A <= 3 (quick) / 4 (thorough) areas, each a subregion or a single-protocluster candidate cluster, simple or origin-spanning, symbolic coordinates and record length, linear and circular"
    outside = "A > 4; candidate clusters with several protoclusters (their location is still one span)"
    task_paths = 150

    def variants(self, tier):
        out = []
        amax = 3 if tier == "quick" else 4
        for a in range(1, amax + 1):
            for kinds in itertools.product("SC", repeat=a):
                if tier == "quick" and a == 3 and kinds not in (("S", "S", "S"), ("C", "S", "C"), ("C", "C", "C")):
                    continue
                if tier == "thorough" and a == 4 and kinds not in (("S", "S", "S", "S"), ("C", "S", "C", "S")):
                    continue
                out.append({"kinds": list(kinds), "shapes": ["s"] * a, "circ": False})
                out.append({"kinds": list(kinds), "shapes": ["s"] * a, "circ": True})
                for pos in range(a):
                    shapes = ["s"] * a
                    shapes[pos] = "o"
                    out.append({"kinds": list(kinds), "shapes": shapes, "circ": True})
                if a >= 2:
                    out.append({"kinds": list(kinds), "shapes": ["o", "o"] + ["s"] * (a - 2), "circ": True})
        return out

    def vars(self, var):
        d = {"n": "int", "x": "int"}
        for i, sh in enumerate(var["shapes"]):
            d.update(shape_vars("a%d" % i, sh))
        return d

    def pre(self, var, v):
        n = v["n"]
        return L.And([shape_pre("a%d" % i, sh, v, n) for i, sh in enumerate(var["shapes"])], 0 <= v["x"], v["x"] < n)

    def run(self, var, v):
        n = v["n"]
        rec = mkrecord(n, var["circ"])
        areas = [make_area(k, "a%d" % i, sh, v, n, var["circ"])
                 for i, (k, sh) in enumerate(zip(var["kinds"], var["shapes"]))]
        for area in areas:
            if isinstance(area, SubRegion):
                rec.add_subregion(area)
            else:
                rec.add_protocluster(area.protoclusters[0])
                rec.add_candidate_cluster(area)
        count = rec.create_regions()
        regions = rec.get_regions()
        out = []
        for idx, region in enumerate(regions):
            members = sorted(areas.index(a) for a in list(region.candidate_clusters) + list(region.subregions))
            out.append({"loc": canon_loc(region.location), "members": members,
                        "number": rec.get_region_number(region), "index": idx,
                        "parents_ok": all(areas[m].parent is region for m in members)})
        return {"count": count, "regions": out}

    def post(self, var, v, out):
        if is_raised(out):
            return [("creation_succeeds", False)]
        n, x = v["n"], v["x"]
        k = len(var["shapes"])
        parts = [model_parts("a%d" % i, sh, v) for i, sh in enumerate(var["shapes"])]
        regions = out["regions"]
        cl = [("count_matches", out["count"] == len(regions))]
        region_of = {}
        for r in regions:
            for m in r["members"]:
                region_of.setdefault(m, []).append(r["index"])
        cl.append(("every_area_in_exactly_one_region", all(len(region_of.get(i, [])) == 1 for i in range(k))))
        if not all(len(region_of.get(i, [])) == 1 for i in range(k)):
            return cl
        rel = [[overlap_parts(parts[i], parts[j]) if i != j else True for j in range(k)] for i in range(k)]
        reach = L.closure(k, rel)
        same = []
        for i in range(k):
            for j in range(i + 1, k):
                same.append(L.Iff(region_of[i][0] == region_of[j][0], reach[i][j]))
        cl.append(("same_region_iff_chain_of_overlaps", L.And(same)))
        disjoint = []
        for a, b in itertools.combinations(regions, 2):
            disjoint.append(L.Not(overlap_parts(a["loc"], b["loc"])))
        cl.append(("regions_disjoint", L.And(disjoint)))
        for r in regions:
            union = L.Or([in_parts(x, parts[m]) for m in r["members"]])
            cl.append(("region_is_span_of_its_component", L.And(wf_span(r["loc"], n), L.Iff(in_parts(x, r["loc"]), union))))
            cl.append(("numbered_in_order", r["number"] == r["index"] + 1))
            cl.append(("parent_links", r["parents_ok"]))
        return cl


HARNESSES = [CreateRegions()]
