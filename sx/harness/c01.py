"""C01 - rule conditions evaluate to their documented boolean meaning."""
import itertools

from antismash.common.hmm_rule_parser import rule_parser as rp
from antismash.common.hmm_rule_parser.structures import ProfileHit
from antismash.common.secmet.test.helpers import DummyCDS

from .. import logic as L
from .c04 import build, model_parts, ring_distance_spec, shape_pre, shape_vars
from .common import Harness, is_raised

RP = "antismash.common.hmm_rule_parser.rule_parser:"
PROFILES = ("a", "b")

_orig_in_range = rp.Details.in_range


def _in_range(self, cds, other):
    """function summary: the real Details.in_range is explored once per call and its paths merged into
    one boolean term, so rule evaluation forks on 'in range or not' rather than on every comparison inside
    the distance computation"""
    if L.issym(cds.start) or L.issym(other.start) or L.issym(self.cutoff):
        from ..core import ENG
        if ENG.nested:
            return _orig_in_range(self, cds, other)
        # memoised per path: the same pair is asked again by every leaf of the rule and by every rule
        key = ("in_range", id(cds), id(other), repr(self.cutoff), repr(self.circular_origin))
        if key not in ENG.memo:
            ENG.memo[key] = (ENG.summarise(_orig_in_range, self, cds, other), cds, other)
        return ENG.memo[key][0]
    return _orig_in_range(self, cds, other)


rp.Details.in_range = _in_range

# ---- rule ASTs: ("p", name) ("not", t) ("and", t, u, ...) ("or", t, u, ...) ("cds", t) ("min", n, [names]) ("score", name, s)


def text(t):
    k = t[0]
    if k == "p":
        return t[1]
    if k == "not":
        inner = t[1]
        if inner[0] in ("and", "or"):
            return "not (%s)" % text(inner)
        return "not " + text(inner)
    if k in ("and", "or"):
        parts = []
        for sub in t[1:]:
            s = text(sub)
            if sub[0] in ("and", "or") and sub[0] != k:
                s = "(%s)" % s
            parts.append(s)
        return (" %s " % k).join(parts)
    if k == "cds":
        return "cds(%s)" % text(t[1])
    if k == "min":
        return "minimum(%d, [%s])" % (t[1], ", ".join(t[2]))
    if k == "score":
        return "minscore(%s, %d)" % (t[1], t[2])
    raise ValueError(t)


def spec_eval(t, g, local, E):
    """documented meaning -> (met, {profile: reason?}) at gene g. E: present[g][p], score[g][p], near (genes in range of
    gene 0, only ever needed from gene 0)"""
    k = t[0]
    none = {p: False for p in PROFILES}
    if k == "p":
        p = t[1]
        met = E["present"][g][p]
        if not local and g == 0:
            met = L.Or(met, [L.And(E["inrange"][j], E["present"][j][p]) for j in E["others"]])
        m = dict(none)
        m[p] = E["present"][g][p]
        return met, m
    if k == "score":
        p, s = t[1], t[2]
        own = L.And(E["present"][g][p], E["score"][g][p] >= s)
        met = L.Or(own, [L.And(E["inrange"][j], E["present"][j][p], E["score"][j][p] >= s) for j in E["others"]])
        m = dict(none)
        m[p] = own
        return met, m
    if k == "min":
        n, ps = t[1], t[2]
        total = L.Sum([L.If(E["present"][g][p], 1, 0) for p in ps]
                      + [L.If(L.And(E["inrange"][j], E["present"][j][p]), 1, 0) for j in E["others"] for p in ps])
        m = dict(none)
        for p in ps:
            m[p] = E["present"][g][p]
        return total >= n, m
    if k == "not":
        met, m = spec_eval(t[1], g, local, E)
        return L.Not(met), m
    if k in ("and", "or"):
        subs = [spec_eval(sub, g, local, E) for sub in t[1:]]
        met = (L.And if k == "and" else L.Or)([s[0] for s in subs])
        m = {p: L.Or([s[1][p] for s in subs]) for p in PROFILES}
        return met, m
    if k == "cds":
        own, m_own = spec_eval(t[1], g, True, E)
        elsewhere = [L.And(E["inrange"][j], spec_eval(t[1], j, True, E)[0]) for j in E["others"]]
        met = L.Or(own, elsewhere)
        m = {p: L.And(own, m_own[p]) for p in PROFILES}
        return met, m
    raise ValueError(t)


def positive(t):
    k = t[0]
    if k == "not":
        return False
    if k in ("and", "or"):
        return any(positive(s) for s in t[1:])
    return True


def trees(tier):
    a, b = ("p", "a"), ("p", "b")
    na, nb = ("not", a), ("not", b)
    lits = [a, b, na, nb]
    out = [a, ("and", a, b), ("or", a, b), ("and", a, nb), ("or", a, nb),
           ("cds", ("and", a, b)), ("cds", ("or", a, b)), ("cds", ("and", a, nb)),
           ("and", ("cds", ("and", a, nb)), b), ("and", a, ("not", ("cds", ("and", a, b)))),
           ("and", b, ("not", ("cds", ("or", a, nb)))),
           ("min", 1, ["a", "b"]), ("min", 2, ["a", "b"]), ("min", 3, ["a", "b"]),
           ("and", a, ("not", ("min", 2, ["a", "b"]))), ("or", a, ("min", 2, ["a", "b"])),
           ("score", "a", 50), ("and", b, ("not", ("score", "a", 50))), ("and", ("score", "a", 50), b),
           ("and", a, ("not", ("or", b, ("score", "a", 50)))),
           ("or", ("and", a, b), ("not", a)), ("and", ("or", a, b), ("not", ("and", a, b)))]
    if tier == "thorough":
        atoms = lits + [("min", 2, ["a", "b"]), ("not", ("min", 2, ["a", "b"])), ("score", "b", 30), ("not", ("score", "b", 30)),
                        ("cds", ("and", a, b)), ("not", ("cds", ("and", a, b))), ("cds", ("or", na, b)), ("not", ("cds", ("or", a, nb)))]
        seen = {text(t) for t in out}
        for x, y in itertools.combinations(atoms, 2):
            for op in ("and", "or"):
                t = (op, x, y)
                if text(x) != text(y) and positive(t) and text(t) not in seen:
                    seen.add(text(t))
                    out.append(t)
        for x, y, z in [(a, b, na), (a, nb, ("min", 2, ["a", "b"])), (("cds", ("and", a, b)), na, b)]:
            for t in (("and", ("or", x, y), z), ("or", ("and", x, y), z), ("and", x, ("not", ("or", y, z)))):
                if positive(t) and text(t) not in seen:
                    seen.add(text(t))
                    out.append(t)
    return [t for t in out if positive(t)]


class RuleEval(Harness):
    pid, name = "C01", "rule_eval"
    functions = [RP + "DetectionRule.detect", RP + "Details.in_range", RP + "Conditions.is_satisfied",
                 RP + "Conditions.are_subconditions_satisfied", RP + "AndCondition.is_satisfied",
                 RP + "MinimumCondition.is_satisfied", RP + "CDSCondition.is_satisfied",
                 RP + "SingleCondition.is_satisfied", RP + "ScoreCondition.is_satisfied", RP + "Parser",
                 "antismash.common.secmet.locations:get_distance_between_locations"]
    bound = ("G = 3 genes (the evaluated gene + 2 others, symbolic coordinates, evaluated gene optionally origin-spanning), "
             "2 profiles, every presence pattern (symbolic booleans), symbolic bitscores (reals), symbolic cutoff and record "
             "length, linear and circular; condition trees enumerated (22 quick / ~150 thorough) and parsed from text by the real Parser")
    outside = "more than 3 genes / 2 profiles; trees outside the enumerated set; minscore inside cds() (not in the documented grammar)"
    stubs = ["Details.in_range wrapped in a function summary (same code, outcomes merged into one term)"]
    task_paths = 200

    def variants(self, tier):
        out = []
        for t in trees(tier):
            out.append({"tree": t, "circ": False, "g0": "s"})
            out.append({"tree": t, "circ": True, "g0": "s"})
        if tier == "thorough":
            for t in trees("quick")[:8]:
                out.append({"tree": t, "circ": True, "g0": "o"})
        return out

    def vars(self, var):
        d = {"n": "int", "cutoff": "int"}
        d.update(shape_vars("g0", var["g0"]))
        for i in (1, 2):
            d.update(shape_vars("g%d" % i, "s"))
        for g in range(3):
            for p in PROFILES:
                d["has_%d%s" % (g, p)] = "bool"
                d["sc_%d%s" % (g, p)] = "real"
        return d

    def pre(self, var, v):
        n = v["n"]
        return L.And(shape_pre("g0", var["g0"], v, n), shape_pre("g1", "s", v, n), shape_pre("g2", "s", v, n),
                     v["cutoff"] >= 1, [v["sc_%d%s" % (g, p)] >= 0 for g in range(3) for p in PROFILES])

    def run(self, var, v):
        rule = rp.Parser("RULE r CATEGORY c CUTOFF 20 NEIGHBOURHOOD 5 CONDITIONS " + text(var["tree"]),
                         set(PROFILES), {"c"}).rules[0]
        rule.cutoff = v["cutoff"]
        feats, results = {}, {}
        shapes = [var["g0"], "s", "s"]
        for g in range(3):
            name = "g%d" % g
            feats[name] = DummyCDS(location=build(name, shapes[g], v), locus_tag=name, translation="A")
            hits = []
            for p in PROFILES:
                if v["has_%d%s" % (g, p)]:
                    hits.append(ProfileHit(name, p, v["sc_%d%s" % (g, p)], 1e-5))
            if hits:
                results[name] = hits
        res = rule.detect("g0", feats, results, circular_origin=v["n"] if var["circ"] else 0)
        return {"met": True if res.met else False, "matches": sorted(res.matches),
                "anchors": True if (res.met and res.matches) else False}

    def post(self, var, v, out):
        if is_raised(out):
            return [("no_raise", False)]
        n = v["n"]
        shapes = [var["g0"], "s", "s"]
        genes = [model_parts("g%d" % g, shapes[g], v) for g in range(3)]
        E = {"present": [{p: v["has_%d%s" % (g, p)] for p in PROFILES} for g in range(3)],
             "score": [{p: v["sc_%d%s" % (g, p)] for p in PROFILES} for g in range(3)],
             "others": [1, 2], "near": [],
             "inrange": {j: ring_distance_spec(genes[0], genes[j], n if var["circ"] else None) < v["cutoff"] for j in (1, 2)}}
        met, reasons = spec_eval(var["tree"], 0, False, E)
        cl = [("met_is_documented_formula", L.Iff(out["met"], met))]
        for p in PROFILES:
            cl.append(("reason_profiles_exact", L.Iff(p in out["matches"], reasons[p])))
        cl.append(("anchors_iff_true_and_has_reason", L.Iff(out["anchors"], L.And(met, L.Or([reasons[p] for p in PROFILES])))))
        return cl


HARNESSES = [RuleEval()]
