"""C01 - rule conditions evaluate to their documented boolean meaning."""
import itertools

from antismash.common.hmm_rule_parser import rule_parser as rp
from antismash.common.hmm_rule_parser.structures import ProfileHit
from antismash.common.secmet.test.helpers import DummyCDS

from .. import logic as L
from .c04 import build, model_parts, ring_distance_spec, shape_pre, shape_vars
from .common import Harness, is_raised

RP = "antismash.common.hmm_rule_parser.rule_parser:"
PROFILES = ("a", "b")

_orig_in_range = rp.Details.in_range


def _in_range(self, cds, other):
    """function summary: the real Details.in_range is explored once per call and its paths merged into
    one boolean term, so rule evaluation forks on 'in range or not' rather than on every comparison inside
    the distance computation"""
    if L.issym(cds.start) or L.issym(other.start) or L.issym(self.cutoff):
        from ..core import ENG
        if ENG.nested:
            return _orig_in_range(self, cds, other)
        # memoised per path: the same pair is asked again by every leaf of the rule and by every rule
        key = ("in_range", id(cds), id(other), repr(self.cutoff), repr(self.circular_origin))
        if key not in ENG.memo:
            ENG.memo[key] = (ENG.summarise(_orig_in_range, self, cds, other), cds, other)
        return ENG.memo[key][0]
    return _orig_in_range(self, cds, other)


rp.Details.in_range = _in_range

# ---- rule ASTs: ("p", name) ("not", t) ("and", t, u, ...) ("or", t, u, ...) ("cds", t) ("min", n, [names]) ("score", name, s)


def text(t):
    k = t[0]
    if k == "p":
        return t[1]
    if k == "not":
        inner = t[1]
        if inner[0] in ("and", "or"):
            return "not (%s)" % text(inner)
        return "not " + text(inner)
    if k in ("and", "or"):
        parts = []
        for sub in t[1:]:
            s = text(sub)
            if sub[0] in ("and", "or") and sub[0] != k:
                s = "(%s)" % s
            parts.append(s)
        return (" %s " % k).join(parts)
    if k == "cds":
        return "cds(%s)" % text(t[1])
    if k == "min":
        return "minimum(%d, [%s])" % (t[1], ", ".join(t[2]))
    if k == "score":
        return "minscore(%s, %d)" % (t[1], t[2])
    raise ValueError(t)


def spec_eval(t, g, local, E):
    """documented meaning -> (met, {profile: reason?}) at gene g. E: present[g][p], score[g][p], near (genes in range of
    gene 0, only ever needed from gene 0)"""
    k = t[0]
    none = {p: False for p in PROFILES}
    if k == "p":
        p = t[1]
        met = E["present"][g][p]
        if not local and g == 0:
            met = L.Or(met, [L.And(E["inrange"][j], E["present"][j][p]) for j in E["others"]])
        m = dict(none)
        m[p] = E["present"][g][p]
        return met, m
    if k == "score":
        p, s = t[1], t[2]
        own = L.And(E["present"][g][p], E["score"][g][p] >= s)
        met = L.Or(own, [L.And(E["inrange"][j], E["present"][j][p], E["score"][j][p] >= s) for j in E["others"]])
        m = dict(none)
        m[p] = own
        return met, m
    if k == "min":
        n, ps = t[1], t[2]
        total = L.Sum([L.If(E["present"][g][p], 1, 0) for p in ps]
                      + [L.If(L.And(E["inrange"][j], E["present"][j][p]), 1, 0) for j in E["others"] for p in ps])
        m = dict(none)
        for p in ps:
            m[p] = E["present"][g][p]
        return total >= n, m
    if k == "not":
        met, m = spec_eval(t[1], g, local, E)
        return L.Not(met), m
    if k in ("and", "or"):
        subs = [spec_eval(sub, g, local, E) for sub in t[1:]]
        met = (L.And if k == "and" else L.Or)([s[0] for s in subs])
        m = {p: L.Or([s[1][p] for s in subs]) for p in PROFILES}
        return met, m
    if k == "cds":
        own, m_own = spec_eval(t[1], g, True, E)
        elsewhere = [L.And(E["inrange"][j], spec_eval(t[1], j, True, E)[0]) for j in E["others"]]
        met = L.Or(own, elsewhere)
        m = {p: L.And(own, m_own[p]) for p in PROFILES}
        return met, m
    raise ValueError(t)


def positive(t):
    k = t[0]
    if k == "not":
        return False
    if k in ("and", "or"):
        return any(positive(s) for s in t[1:])
    return True


def trees(tier):
    a, b = ("p", "a"), ("p", "b")
    na, nb = ("not", a), ("not", b)
    lits = [a, b, na, nb]
    out = [a, ("and", a, b), ("or", a, b), ("and", a, nb), ("or", a, nb),
           ("cds", ("and", a, b)), ("cds", ("or", a, b)), ("cds", ("and", a, nb)),
           ("and", ("cds", ("and", a, nb)), b), ("and", a, ("not", ("cds", ("and", a, b)))),
           ("and", b, ("not", ("cds", ("or", a, nb)))),
           ("min", 1, ["a", "b"]), ("min", 2, ["a", "b"]), ("min", 3, ["a", "b"]),
           ("and", a, ("not", ("min", 2, ["a", "b"]))), ("or", a, ("min", 2, ["a", "b"])),
           ("score", "a", 50), ("and", b, ("not", ("score", "a", 50))), ("and", ("score", "a", 50), b),
           ("and", a, ("not", ("or", b, ("score", "a", 50)))),
           ("or", ("and", a, b), ("not", a)), ("and", ("or", a, b), ("not", ("and", a, b)))]
    if tier == "thorough":
        atoms = lits + [("min", 2, ["a", "b"]), ("not", ("min", 2, ["a", "b"])), ("score", "b", 30), ("not", ("score", "b", 30)),
                        ("cds", ("and", a, b)), ("not", ("cds", ("and", a, b))), ("cds", ("or", na, b)), ("not", ("cds", ("or", a, nb)))]
        seen = {text(t) for t in out}
        for x, y in itertools.combinations(atoms, 2):
            for op in ("and", "or"):
                t = (op, x, y)
                if text(x) != text(y) and positive(t) and text(t) not in seen:
                    seen.add(text(t))
                    out.append(t)
        for x, y, z in [(a, b, na), (a, nb, ("min", 2, ["a", "b"])), (("cds", ("and", a, b)), na, b)]:
            for t in (("and", ("or", x, y), z), ("or", ("and", x, y), z), ("and", x, ("not", ("or", y, z)))):
                if positive(t) and text(t) not in seen:
                    seen.add(text(t))
                    out.append(t)
    return [t for t in out if positive(t)]


class RuleEval(Harness):
    pid, name = "C01", "rule_eval"
    functions = [RP + "DetectionRule.detect", RP + "Details.in_range", RP + "Conditions.is_satisfied",
                 RP + "Conditions.are_subconditions_satisfied", RP + "AndCondition.is_satisfied",
                 RP + "MinimumCondition.is_satisfied", RP + "CDSCondition.is_satisfied",
                 RP + "SingleCondition.is_satisfied", RP + "ScoreCondition.is_satisfied", RP + "Parser",
                 "antismash.common.secmet.locations:get_distance_between_locations"]
    bound = ("G = 3 genes (the evaluated gene + 2 others, symbolic coordinates, evaluated gene optionally origin-spanning), "
             "2 profiles, every presence pattern (symbolic booleans), symbolic bitscores (reals), symbolic cutoff and record "
             "length, linear and circular; condition trees enumerated (22 quick / ~150 thorough) and parsed from text by the real Parser")
    outside = "more than 3 genes / 2 profiles; trees outside the enumerated set; minscore inside cds() (not in the documented grammar)"
    stubs = ["Details.in_range wrapped in a function summary (same code, outcomes merged into one term)"]
    task_paths = 200

    def variants(self, tier):
        out = []
        for t in trees(tier):
            out.append({"tree": t, "circ": False, "g0": "s"})
            out.append({"tree": t, "circ": True, "g0": "s"})
        if tier == "thorough":
            for t in trees("quick")[:8]:
                out.append({"tree": t, "circ": True, "g0": "o"})
        return out

    def vars(self, var):
        d = {"n": "int", "cutoff": "int"}
        d.update(shape_vars("g0", var["g0"]))
        for i in (1, 2):
            d.update(shape_vars("g%d" % i, "s"))
        for g in range(3):
            for p in PROFILES:
                d["has_%d%s" % (g, p)] = "bool"
                d["sc_%d%s" % (g, p)] = "real"
        return d

    def pre(self, var, v):
        n = v["n"]
        return L.And(shape_pre("g0", var["g0"], v, n), shape_pre("g1", "s", v, n), shape_pre("g2", "s", v, n),
                     v["cutoff"] >= 1, [v["sc_%d%s" % (g, p)] >= 0 for g in range(3) for p in PROFILES])

    def run(self, var, v):
        rule = rp.Parser("RULE r CATEGORY c CUTOFF 20 NEIGHBOURHOOD 5 CONDITIONS " + text(var["tree"]),
                         set(PROFILES), {"c"}).rules[0]
        rule.cutoff = v["cutoff"]
        feats, results = {}, {}
        shapes = [var["g0"], "s", "s"]
        for g in range(3):
            name = "g%d" % g
            feats[name] = DummyCDS(location=build(name, shapes[g], v), locus_tag=name, translation="A")
            hits = []
            for p in PROFILES:
                if v["has_%d%s" % (g, p)]:
                    hits.append(ProfileHit(name, p, v["sc_%d%s" % (g, p)], 1e-5))
            if hits:
                results[name] = hits
        res = rule.detect("g0", feats, results, circular_origin=v["n"] if var["circ"] else 0)
        return {"met": True if res.met else False, "matches": sorted(res.matches),
                "anchors": True if (res.met and res.matches) else False}

    def post(self, var, v, out):
        if is_raised(out):
            return [("no_raise", False)]
        n = v["n"]
        shapes = [var["g0"], "s", "s"]
        genes = [model_parts("g%d" % g, shapes[g], v) for g in range(3)]
        E = {"present": [{p: v["has_%d%s" % (g, p)] for p in PROFILES} for g in range(3)],
             "score": [{p: v["sc_%d%s" % (g, p)] for p in PROFILES} for g in range(3)],
             "others": [1, 2], "near": [],
             "inrange": {j: ring_distance_spec(genes[0], genes[j], n if var["circ"] else None) < v["cutoff"] for j in (1, 2)}}
        met, reasons = spec_eval(var["tree"], 0, False, E)
        cl = [("met_is_documented_formula", L.Iff(out["met"], met))]
        for p in PROFILES:
            cl.append(("reason_profiles_exact", L.Iff(p in out["matches"], reasons[p])))
        cl.append(("anchors_iff_true_and_has_reason", L.Iff(out["anchors"], L.And(met, L.Or([reasons[p] for p in PROFILES])))))
        return cl


class _Stub(rp.Conditions):
    """a child condition whose result is arbitrary: truth value and reported profile per (gene, local flag) come from a table of
    symbolic booleans; the only thing assumed of a child is that its result is a function of the gene and the flag"""
    def __init__(self, idx, table):
        super().__init__(False)
        self.idx, self.table = idx, table

    def is_satisfied(self, details, local_only=False):
        met, match = self.table[(details.cds, True if local_only else False)]
        return rp.ConditionMet(True if met else False, {"p%d" % self.idx} if match else set())

    @property
    def profiles(self):
        return {"p%d" % self.idx}

    def __str__(self):
        return "stub%d" % self.idx


class Combinators(Harness):
    """the inductive step for trees of any depth: each combinator of the rule language computes the documented function of its
    children's results, for arbitrary children (rule_eval checks the leaves and whole trees on the same geometry)"""
    pid, name = "C01", "combinators"
    functions = [RP + "Conditions.is_satisfied", RP + "Conditions.are_subconditions_satisfied", RP + "Conditions.get_satisfied",
                 RP + "AndCondition.is_satisfied", RP + "CDSCondition.is_satisfied", RP + "Details.in_range", RP + "Details.just_cds",
                 RP + "ConditionMet"]
    bound = ("one combinator node (group / not-group over 1-3 operands joined by or; and-chain of 2-3 operands; cds(...) and not cds(...) "
             "around one operand, a two-operand or-list or and-chain) whose 1-3 children are stubs with arbitrary results: truth value and "
             "reported profile per (gene, local flag) are symbolic booleans; 3 genes with symbolic coordinates, cutoff and record "
             "length, linear and circular; evaluated at gene 0 in normal mode and (for groups and and-chains) in the local mode "
             "used inside cds(...)")
    outside = ("more than 3 operands per node (the loops over operands are uniform); that a child's result depends only on the gene "
               "and the local flag (true by inspection: Details is never modified, hit counters are not read)")
    stubs = RuleEval.stubs + ["children are stub conditions returning arbitrary (symbolic) results"]
    task_paths = 200

    def variants(self, tier):
        out = []
        for neg in (False, True):
            for k in (1, 2, 3):
                for local in (False, True):
                    out.append({"node": "group", "neg": neg, "k": k, "local": local, "circ": False})
            # (three operands inside cds(...) cost ~10^4 paths per variant and add nothing to the uniform loop over operands)
            for inner, k in (("one", 1), ("or", 2), ("and", 2)):
                for circ in (False, True):
                    if tier == "quick" and (inner, circ) in (("or", True), ("and", False)):
                        continue
                    out.append({"node": "cds", "neg": neg, "k": k, "inner": inner, "local": False, "circ": circ})
        for k in (2, 3):
            for local in (False, True):
                out.append({"node": "and", "neg": False, "k": k, "local": local, "circ": False})
        return out

    def vars(self, var):
        d = {"n": "int", "cutoff": "int"}
        for g in range(3):
            d.update(shape_vars("g%d" % g, "s"))
        for i in range(var["k"]):
            for g in range(3):
                for m in (0, 1):
                    d["met_%d_%d_%d" % (i, g, m)] = "bool"
                    d["mat_%d_%d_%d" % (i, g, m)] = "bool"
        return d

    def pre(self, var, v):
        return L.And([shape_pre("g%d" % g, "s", v, v["n"]) for g in range(3)], v["cutoff"] >= 1)

    def build_node(self, var, v):
        OR, AND = rp.TokenTypes.OR, rp.TokenTypes.AND
        stubs = []
        for i in range(var["k"]):
            table = {("g%d" % g, bool(m)): (v["met_%d_%d_%d" % (i, g, m)], v["mat_%d_%d_%d" % (i, g, m)]) for g in range(3) for m in (0, 1)}
            stubs.append(_Stub(i, table))

        def joined(items, op):
            seq = []
            for item in items:
                seq += [item, op]
            return seq[:-1]
        if var["node"] == "group":
            return rp.Conditions(var["neg"], joined(stubs, OR))
        if var["node"] == "and":
            return rp.AndCondition(joined(stubs, AND))
        if var["inner"] == "and":
            return rp.CDSCondition(var["neg"], [rp.AndCondition(joined(stubs, AND))])
        return rp.CDSCondition(var["neg"], joined(stubs, OR))

    def run(self, var, v):
        node = self.build_node(var, v)
        feats = {"g%d" % g: DummyCDS(location=build("g%d" % g, "s", v), locus_tag="g%d" % g, translation="A") for g in range(3)}
        details = rp.Details("g0", feats, {}, v["cutoff"], circular_origin=v["n"] if var["circ"] else 0)
        res = node.get_satisfied(details, var["local"])
        return {"met": True if res.met else False, "matches": sorted(res.matches)}

    def post(self, var, v, out):
        if is_raised(out):
            return [("no_raise", False)]
        k, neg = var["k"], var["neg"]
        m = 1 if var["local"] else 0

        def met(i, g, mode):
            return v["met_%d_%d_%d" % (i, g, mode)]

        def mat(i, g, mode):
            return v["mat_%d_%d_%d" % (i, g, mode)]
        if var["node"] in ("group", "and"):
            inner = (L.And if var["node"] == "and" else L.Or)([met(i, 0, m) for i in range(k)])
            want = L.Not(inner) if neg else inner
            reasons = [mat(i, 0, m) for i in range(k)]
        else:
            n = v["n"]
            genes = [model_parts("g%d" % g, "s", v) for g in range(3)]
            near = {j: ring_distance_spec(genes[0], genes[j], n if var["circ"] else None) < v["cutoff"] for j in (1, 2)}
            comb = L.And if var["inner"] == "and" else L.Or

            def alone(g):
                return comb([met(i, g, 1) for i in range(k)])
            somewhere = L.Or(alone(0), [L.And(near[j], alone(j)) for j in (1, 2)])
            want = L.Not(somewhere) if neg else somewhere
            reasons = [L.And(alone(0), mat(i, 0, 1)) for i in range(k)]
        cl = [("node_is_the_documented_function_of_its_children", L.Iff(out["met"], want))]
        for i in range(k):
            cl.append(("reasons_are_the_childrens_reasons", L.Iff(("p%d" % i) in out["matches"], reasons[i])))
        return cl


HARNESSES = [RuleEval(), Combinators()]
