"""C20 - a failed or refused write never damages existing results."""
import io
import os as real_os
import posixpath

from Bio.Seq import Seq

from antismash import main as as_main
from antismash.common import serialiser
from antismash.common.module_results import ModuleResults
from antismash.common.secmet import Record
from antismash.config import update_config

from .. import logic as L
from .common import Harness, is_raised

SER = "antismash.common.serialiser:"
OLD = "PREVIOUS RESULTS"


class ModelFS:
    """in-memory file system: path -> content; open(path, 'w') truncates at open time, as the OS does"""
    def __init__(self, files=None, dirs=None):
        self.files = dict(files or {})
        self.dirs = set(dirs or ())
        self.log = []

    def open(self, path, mode="r", **_kw):
        fs = self
        if "w" in mode:
            fs.files[path] = ""
            fs.log.append(("truncate", path))

            class Handle(io.StringIO):
                def write(self, text):
                    fs.files[path] = fs.files[path] + text
                    return len(text)
            return Handle()
        return io.StringIO(fs.files[path])


class Late:
    """a value that is only converted while the JSON text is produced (json.dumps -> default convertor)"""
    def __init__(self, owner):
        self.owner = owner

    def to_json(self):
        return self.owner.tick("late")


class FaultyResults(ModuleResults):
    """module results whose conversions count themselves; the conversion with number `fault` raises TypeError"""
    def __init__(self, record_id, state):
        super().__init__(record_id)
        self.state = state

    def tick(self, stage):
        self.state["count"] += 1
        if self.state["count"] == self.state["fault"]:
            raise TypeError("injected conversion failure (%s)" % stage)
        return {"stage": stage, "n": self.state["count"]}

    def to_json(self):
        first = self.tick("eager")
        return {"eager": first, "late": Late(self)}

    @staticmethod
    def from_json(json, record):
        raise NotImplementedError

    def add_to_record(self, record):
        pass


class WriteResults(Harness):
    pid, name = "C20", "write_results"
    functions = [SER + "AntismashResults.write_to_file", SER + "AntismashResults.to_json", SER + "dump_records",
                 "antismash.common.json:dumps", "antismash.common.json:_base_convertor"]
    bound = ("R <= 2 records x M <= 2 modules, each module with one eager conversion (its to_json) and one late conversion (an object "
             "converted while the JSON text is produced); the position of the failing conversion is a symbolic integer over all "
             "positions and 'no fault'; target given as a path with a pre-existing file, and dump_records with a path")
    outside = "real disks, partial writes inside handle.write, the ordering inside _run_antismash"
    stubs = ["open() in serialiser replaced by an in-memory file system in which open(path, 'w') truncates immediately"]

    def variants(self, tier):
        out = []
        for r in (1, 2):
            for m in (1, 2):
                for api in ("write_to_file", "dump_records"):
                    out.append({"records": r, "modules": m, "api": api})
        return out

    def vars(self, var):
        return {"fault": "int"}

    def pre(self, var, v):
        return L.And(0 <= v["fault"], v["fault"] <= 2 * var["records"] * var["modules"] + 1)

    def run(self, var, v):
        state = {"count": 0, "fault": v["fault"]}
        records, results = [], []
        for r in range(var["records"]):
            rec = Record(Seq("ACGT" * 5))
            rec.id = rec.name = "rec%d" % r
            records.append(rec)
            results.append({"mod%d" % m: FaultyResults(rec.id, state) for m in range(var["modules"])})
        fs = ModelFS(files={"/out/results.json": OLD})
        serialiser.open = fs.open
        raised = None
        try:
            if var["api"] == "write_to_file":
                res = serialiser.AntismashResults("input.gbk", records, results, "7.0")
                res.write_to_file("/out/results.json")
            else:
                serialiser.dump_records(results, records, "/out/results.json")
        except TypeError as err:
            raised = "TypeError"
        finally:
            del serialiser.open
        content = fs.files["/out/results.json"]
        return {"raised": raised, "unchanged": content == OLD, "conversions": state["count"],
                "new_is_json": content.startswith("{") or content.startswith("["), "truncations": len(fs.log)}

    def post(self, var, v, out):
        if is_raised(out):
            return [("only_conversion_errors", False)]
        total = 2 * var["records"] * var["modules"]
        faulted = L.And(1 <= v["fault"], v["fault"] <= total)
        return [("fault_is_reported", L.Iff(out["raised"] == "TypeError", faulted)),
                ("existing_file_untouched_on_failure", L.Implies(faulted, out["unchanged"] and out["truncations"] == 0)),
                ("new_results_written_on_success", L.Implies(L.Not(faulted), (not out["unchanged"]) and out["new_is_json"])),
                ("every_conversion_ran_on_success", L.Implies(L.Not(faulted), out["conversions"] == total))]


class ModelOS:
    """just enough of os / glob for prepare_output_directory, over a set of paths"""
    def __init__(self, files, dirs):
        self.files, self.dirs = set(files), set(dirs)
        self.ops = []
        self.path = self

    # os.path
    def exists(self, p):
        return p in self.files or p in self.dirs

    def isdir(self, p):
        return p in self.dirs

    join = staticmethod(posixpath.join)
    abspath = staticmethod(posixpath.normpath)
    basename = staticmethod(posixpath.basename)
    splitext = staticmethod(posixpath.splitext)

    # os
    def mkdir(self, p):
        self.ops.append(("mkdir", p))
        self.dirs.add(p)

    def remove(self, p):
        self.ops.append(("remove", p))
        self.files.discard(p)

    # glob
    def glob(self, pattern):
        import fnmatch
        return sorted(p for p in (self.files | self.dirs) if fnmatch.fnmatch(p, pattern))


class OutputDirectory(Harness):
    pid, name = "C20", "output_directory"
    functions = ["antismash.main:prepare_output_directory", "antismash.main:_ignore_patterns"]
    bound = ("every combination of: directory exists / is a directory / contains the input copy directory / the log file / a foreign file / "
             "a foreign file named like the log file of a run logging elsewhere / region GenBank files, and input being a sequence file or "
             "a results JSON (reuse); the combination is a set of symbolic booleans")
    outside = "real file systems, permissions, symlinks"
    stubs = ["os / glob inside antismash.main replaced by an in-memory model (exists, isdir, glob, mkdir, remove)"]

    FLAGS = ["exists", "isdir", "has_input", "has_log", "has_foreign", "has_gbk", "reuse", "log_elsewhere"]

    def variants(self, tier):
        return [{}]

    def vars(self, var):
        return {f: "bool" for f in self.FLAGS}

    def run(self, var, v):
        flags = {f: (True if v[f] else False) for f in self.FLAGS}   # forks: one path per combination
        out = "/work/out"
        files, dirs = set(), {"/work"}
        logfile = "/elsewhere/run.log" if flags["log_elsewhere"] else out + "/run.log"
        if flags["exists"]:
            if flags["isdir"]:
                dirs.add(out)
                if flags["has_input"]:
                    dirs.add(out + "/input")
                if flags["has_log"]:
                    files.add(out + "/run.log")   # the log itself, or a foreign file of that name when logging elsewhere
                if flags["has_foreign"]:
                    files.add(out + "/notes.txt")
                if flags["has_gbk"]:
                    files.add(out + "/rec.region001.gbk")
            else:
                files.add(out)
        model = ModelOS(files, dirs)
        before = (set(model.files), set(model.dirs))
        update_config({"output_dir": out, "logfile": logfile, "output_basename": "base"})
        as_main.os, as_main.glob = model, model
        refused = None
        try:
            as_main.prepare_output_directory(out, "prev.json" if flags["reuse"] else "genome.gbk")
        except as_main.AntismashInputError:
            refused = True
        finally:
            as_main.os, as_main.glob = real_os, __import__("glob")
        after = (set(model.files), set(model.dirs))
        return {"flags": flags, "refused": bool(refused), "unchanged": before == after,
                "removed": sorted(before[0] - after[0]), "created": sorted(after[1] - before[1]),
                "added_files": sorted(after[0] - before[0])}

    def post(self, var, v, out):
        if is_raised(out):
            return [("no_other_exception", False)]
        f = out["flags"]
        in_dir = f["exists"] and f["isdir"]
        foreign = in_dir and (f["has_foreign"] or f["has_gbk"] or (f["has_log"] and f["log_elsewhere"]))
        must_refuse = f["exists"] and (not f["isdir"] or (not f["reuse"] and foreign))
        cl = [("refuses_iff_foreign_content_and_not_reusing", out["refused"] == bool(must_refuse)),
              ("refusal_leaves_directory_untouched", (not out["refused"]) or out["unchanged"]),
              ("nothing_but_old_region_files_removed", all(p.endswith(".gbk") and ".region" in p for p in out["removed"])),
              ("no_files_written", out["added_files"] == []),
              ("directory_created_only_if_missing", out["created"] == ([] if f["exists"] else ["/work/out"]) or out["refused"])]
        return cl


HARNESSES = [WriteResults(), OutputDirectory()]
