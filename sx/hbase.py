"""Harness base class and helpers shared by symbolic and concrete (replay) execution.
Nothing here imports z3, so harness modules can be loaded by a clean /venv/bin/python for replays."""
from . import logic as L


class Raised:
    """outcome of a run that ended in an exception of the code under test"""
    def __init__(self, etype, where, msg=""):
        self.etype = etype
        self.where = where
        self.msg = msg

    def canon(self):
        return {"raised": self.etype, "where": self.where}

    def __repr__(self):
        return "Raised(%s in %s)" % (self.etype, self.where)


def is_raised(out):
    return isinstance(out, Raised)


def cn(x):
    """canonical number: symbolic values stay, int subclasses (ExactPosition) become plain ints"""
    if L.issym(x):
        return x
    if isinstance(x, bool):
        return x
    if isinstance(x, int):
        return int(x)
    return x


def canon_loc(loc):
    """[(start, end, strand), ...] in part order"""
    return [(cn(p.start), cn(p.end), p.strand) for p in loc.parts]


def in_parts(x, parts):
    """x covered by a canonical part list"""
    return L.Or([L.And(s <= x, x < e) for s, e, *_ in parts])


def parts_len(parts):
    return L.Sum([e - s for s, e, *_ in parts])


class Harness:
    pid = ""
    name = ""
    functions = []     # "module:qualname" of the real functions executed
    bound = ""
    outside = ""
    stubs = []         # harness-specific stubs / assumptions (in addition to the engine shims)
    task_paths = 150   # paths per worker task

    def variants(self, tier):
        return [{}]

    def vars(self, var):
        raise NotImplementedError

    def pre(self, var, v):
        return True

    def run(self, var, v):
        raise NotImplementedError

    def post(self, var, v, out):
        raise NotImplementedError

    def klass(self, var, out):
        if is_raised(out):
            return "raised:" + out.etype
        return "returned"

    def expected_classes(self, var):
        return {"returned"}

    @property
    def hid(self):
        return self.pid + "." + self.name


def raised_from(exc, root="/repo/"):
    """Raised() for an exception: innermost frame inside the repository names the site"""
    import traceback
    where = "?"
    for fs in reversed(traceback.extract_tb(exc.__traceback__)):
        if root in fs.filename or "antismash" in fs.filename:
            where = fs.name
            break
    return Raised(type(exc).__name__, where, str(exc)[:200] if not _has_token(exc) else "")


def _has_token(exc):
    try:
        return "§" in str(exc)
    except BaseException:
        return True


class OSet:
    """insertion-ordered set model: Python leaves set iteration order unspecified (it depends on hash values,
    hence on PYTHONHASHSEED for strings and on memory addresses for objects); harnesses that care about it
    substitute this class for `set` in the module under test and supply every insertion permutation."""
    def __init__(self, items=()):
        self._items = []
        for i in items:
            self.add(i)

    def add(self, item):
        for x in self._items:
            if x is item or x == item:
                return
        self._items.append(item)

    def update(self, items):
        for i in items:
            self.add(i)

    def __iter__(self):
        return iter(list(self._items))

    def __len__(self):
        return len(self._items)

    def __contains__(self, item):
        return any(x is item or x == item for x in self._items)

    def __bool__(self):
        return bool(self._items)


class ASet(OSet):
    """a set whose iteration order is an explicit input: every traversal asks `chooser(n)` for the position (among the n
    elements not yet visited) of the next element. With symbolic choices the solver ranges over every iteration order the
    interpreter could pick (any PYTHONHASHSEED, any memory layout); with concrete choices it replays one of them."""
    chooser = None

    def __iter__(self):
        rest = list(self._items)
        out = []
        while rest:
            pick = type(self).chooser(len(rest)) if type(self).chooser and len(rest) > 1 else 0
            out.append(rest.pop(pick))
        return iter(out)

    def union(self, *others):
        new = type(self)(self._items)
        for o in others:
            new.update(o)
        return new

    def __sub__(self, other):
        return type(self)(x for x in self._items if x not in other)

    def __or__(self, other):
        return self.union(other)

    def discard(self, item):
        self._items = [x for x in self._items if not (x is item or x == item)]

    def __and__(self, other):
        return type(self)(x for x in self._items if x in other)

    __rand__ = __and__
    intersection = __and__

    def difference(self, other):
        return self.__sub__(other)

    def isdisjoint(self, other):
        return not any(x in other for x in self._items)

    def clear(self):
        self._items = []

    def __eq__(self, other):
        try:
            return len(self) == len(other) and all(x in other for x in self._items)
        except TypeError:
            return NotImplemented

    __hash__ = None
