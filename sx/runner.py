"""Parallel exploration driver, certificates, translation validation, known findings, evidence."""
import hashlib
import importlib
import json
import multiprocessing as mp
import os
import random
import subprocess
import sys
import time
import traceback

HERE = os.path.dirname(os.path.dirname(os.path.abspath(__file__)))
PROPS = ["C%02d" % i for i in range(1, 21)]
REPO = os.environ.get("SX_REPO", "/repo")
CONCRETE_PY = "/venv/bin/python"

EXIT_OK, EXIT_VIOLATION, EXIT_INCONCLUSIVE = 0, 1, 2


def load_harnesses(pid):
    mod = importlib.import_module("sx.harness." + pid.lower())
    return list(mod.HARNESSES)


def known_findings():
    path = os.path.join(HERE, "known_findings.json")
    if not os.path.exists(path):
        return []
    with open(path) as fh:
        return json.load(fh).get("findings", [])


# ------------------------------------------------------------------------------------------------
# worker side

_W = {}


def _worker_init(pid, tier):
    from . import core
    hs = load_harnesses(pid)
    core.install()
    _W["hs"] = {h.hid: h for h in hs}
    _W["tier"] = tier
    _W["kf"] = [k for k in known_findings() if k.get("property") == pid and k.get("status", "open") == "open"]


def _mk_vars(h, var):
    from . import core
    v = {}
    for name, kind in h.vars(var).items():
        if kind == "int":
            v[name] = core.sym_int(name)
        elif kind == "bool":
            v[name] = core.sym_bool(name)
        elif kind == "real":
            v[name] = core.sym_real(name)
        else:
            raise ValueError(kind)
    return v


def _model_values(model, v):
    from . import core
    return {k: core.eval_model(model, x) for k, x in v.items()}


def _canon(out):
    from .hbase import Raised
    if isinstance(out, Raised):
        return out.canon()
    return out


def _eval_clauses(model, zclauses):
    import z3
    out = {}
    for name, zf in zclauses:
        ok = z3.is_true(model.eval(zf, model_completion=True))
        out[name] = ok and out.get(name, True)
    return out


def _region_formula(expr, v, var, h=None):
    from . import logic as L
    return eval(expr, {"L": L, "v": v, "var": var, "H": h})


def _task(args):
    """explore up to `budget` paths below `prefix` of harness hid / variant vidx"""
    hid, vidx, prefix, budget, seed = args
    import z3
    from . import core
    from .hbase import raised_from
    eng = core.ENG
    h = _W["hs"][hid]
    var = h.variants(_W["tier"])[vidx]
    res = {"hid": hid, "vidx": vidx, "paths": 0, "decisions": 0, "checks": 0, "solver_s": 0.0,
           "classes": {}, "cex": [], "known_hits": {}, "leftover": [], "samples": [], "inconclusive": None,
           "obligations": 0, "certificate": None, "max_depth": 0}
    t0 = time.time()
    n0_checks, s0 = eng.n_checks, eng.solver_s
    d0 = eng.n_decisions
    rng = random.Random(seed * 1000003 + hash((hid, vidx, len(prefix))) % 1000003)
    try:
        eng.mode = "spec"
        v = _mk_vars(h, var)
        pre = core._zb(h.pre(var, v))
        eng.pre = pre
        kf = [k for k in _W["kf"] if k["harness"] == hid and all(var.get(a) == b for a, b in k.get("applies_to", {}).items())]
        kf_regions = {}
        for k in kf:
            kf_regions.setdefault(k["clause"], []).append(core._zb(_region_formula(k["region"], v, var, h)))
        eng.work = [list(map(tuple, prefix))]
        eng.deferred_pcs = [None]
        leaf_pcs = []
        prefix_pc = None
        while eng.work and res["paths"] < budget:
            p = eng.work.pop()
            eng.deferred_pcs.pop()
            eng.start_path(p)
            eng.mode = "sym"
            try:
                out = h.run(var, v)
            except core.Abort:
                raise
            except Exception as exc:  # outcome of the code under test
                out = raised_from(exc)
            eng.mode = "spec"
            if prefix_pc is None:
                pp = eng.pc[:len(prefix)]
                prefix_pc = z3.And(pp) if pp else z3.BoolVal(True)
            leaf_pcs.append(z3.And(eng.pc) if eng.pc else z3.BoolVal(True))
            res["paths"] += 1
            res["max_depth"] = max(res["max_depth"], len(eng.trail))
            kl = h.klass(var, out)
            res["classes"][kl] = res["classes"].get(kl, 0) + 1
            clauses = h.post(var, v, out)
            zclauses = []
            for cname, f in clauses:
                zclauses.append((cname, core._zb(f)))
            # fast path: one query for the conjunction of all clauses; only a failing path is split per clause
            nontrivial = [zf for (cname, f), (_c, zf) in zip(clauses, zclauses) if f is not True]
            all_hold = False
            if nontrivial and not kf_regions:
                ok_any, _m = eng._check(z3.Not(z3.And(nontrivial)))
                all_hold = not ok_any
            for cname, f in clauses:
                res["obligations"] += 1
                if f is True or all_hold:
                    continue
                zf = core._zb(f)
                neg = z3.Not(zf)
                regions = kf_regions.get(cname, [])
                ok, model = eng._check(neg, *[z3.Not(r) for r in regions])
                if ok:
                    res["cex"].append({"clause": cname, "values": _model_values(model, v),
                                       "out": core.eval_model(model, _canon(out)), "class": kl})
                elif regions:
                    ok2, _m = eng._check(neg)
                    if ok2:
                        res["known_hits"][cname] = res["known_hits"].get(cname, 0) + 1
            # translation-validation sample
            if len(res["samples"]) < 3 and (res["paths"] <= 1 or rng.random() < 0.05):
                ok, model = eng._check()
                if ok:
                    res["samples"].append({"values": _model_values(model, v),
                                           "out": core.eval_model(model, _canon(out)),
                                           "clauses": _eval_clauses(model, zclauses)})
        # leftover prefixes go back to the master
        res["leftover"] = [core.export_prefix(p) for p in eng.work]
        # coverage certificate for this subtree
        lefts = [pc for pc in eng.deferred_pcs]
        s = z3.Solver()
        s.set("timeout", core.SOLVER_TIMEOUT_MS)
        s.add(pre)
        s.add(prefix_pc if prefix_pc is not None else z3.BoolVal(True))
        s.add(z3.Not(z3.Or(leaf_pcs + lefts)))
        t = time.time()
        r = s.check()
        eng.solver_s += time.time() - t
        eng.n_checks += 1
        res["certificate"] = str(r)
        if str(r) != "unsat":
            res["inconclusive"] = "coverage certificate not unsat: %s" % r
        if len(res["samples"]) and leaf_pcs:
            res["sample_pc"] = leaf_pcs[0].sexpr()[:600]
    except core.Abort as exc:
        res["inconclusive"] = "%s: %s | trail depth %d" % (type(exc).__name__, exc, len(eng.trail))
        res["trace"] = "".join(traceback.format_exception(type(exc), exc, exc.__traceback__)[-6:])
    except Exception as exc:
        res["inconclusive"] = "harness error %s: %s" % (type(exc).__name__, exc)
        res["trace"] = traceback.format_exc()[-3000:]
    finally:
        eng.mode = None
    res["decisions"] = eng.n_decisions - d0
    res["checks"] = eng.n_checks - n0_checks
    res["solver_s"] = eng.solver_s - s0
    res["wall_s"] = time.time() - t0
    return res


# ------------------------------------------------------------------------------------------------
# concrete (clean interpreter) runs: translation validation and replay

def concrete_batch(pid, tier, jobs):
    """jobs: [{hid, vidx, values}] -> [{out, clauses:{name:bool}, error}] computed by a clean interpreter"""
    if not jobs:
        return []
    env = dict(os.environ)
    env["PYTHONPATH"] = HERE + (":" + os.environ["SX_REPO"] if os.environ.get("SX_REPO") else "")
    env["PYTHONDONTWRITEBYTECODE"] = "1"
    env["PYTHONHASHSEED"] = "0"   # harnesses that pin set iteration order to string hashes rely on it
    p = subprocess.run([CONCRETE_PY, "-m", "sx.concrete", pid, tier], input=json.dumps(jobs), text=True,
                       capture_output=True, env=env, cwd=HERE, timeout=1800)
    if p.returncode != 0:
        raise RuntimeError("concrete runner failed: " + p.stderr[-2000:])
    return json.loads(p.stdout.strip().splitlines()[-1])


REPLAY_TEMPLATE = '''#!/venv/bin/python
"""Replay of a counterexample found by sx ({hid}, clause {clause!r}) against the real code.
Exit 1 = the property is violated by the real code on this input; exit 0 = it holds."""
import json, os, sys
if os.environ.get("PYTHONHASHSEED") != "0":   # some harnesses pin set iteration order to string hashes
    os.environ["PYTHONHASHSEED"] = "0"
    os.execv(sys.executable, [sys.executable] + sys.argv)
sys.path.insert(0, {here!r})
from sx.concrete import run_one
job = json.loads({job!r})
res = run_one({pid!r}, {tier!r}, job)
print(json.dumps(res, indent=1, default=str))
bad = [c for c, ok in res["clauses"].items() if not ok]
print("violated clauses:", bad)
sys.exit(1 if {clause!r} in bad else 0)
'''


def write_replay(pid, tier, hid, vidx, clause, values, n):
    d = os.path.join(HERE, "evidence", "replays")
    os.makedirs(d, exist_ok=True)
    path = os.path.join(d, "%s_%s_%d.py" % (pid, hid.split(".", 1)[1], n))
    job = json.dumps({"hid": hid, "vidx": vidx, "values": values})
    with open(path, "w") as fh:
        fh.write(REPLAY_TEMPLATE.format(hid=hid, clause=clause, here=HERE, job=job, pid=pid, tier=tier))
    os.chmod(path, 0o755)
    return path


# ------------------------------------------------------------------------------------------------
# master

def file_hash(relpath):
    try:
        with open(os.path.join(REPO, relpath), "rb") as fh:
            return hashlib.sha1(fh.read()).hexdigest()[:12]
    except OSError:
        return "missing"


def run_property(pid, tier, only=None, jobs=None, seed=0, verbose=True):
    t_start = time.time()
    jobs = jobs or min(16, os.cpu_count() or 4)
    hs = load_harnesses(pid)
    if only:
        hs = [h for h in hs if h.name in only]
    ctx = mp.get_context("fork")
    pool = ctx.Pool(jobs, initializer=_worker_init, initargs=(pid, tier))
    kf_all = [k for k in known_findings() if k.get("property") == pid]
    summary = []
    violations = []
    inconclusive = []
    known_lines = []
    tv_total = 0
    n_replay = 0
    try:
        for h in hs:
            variants = h.variants(tier)
            agg = {"hid": h.hid, "variants": len(variants), "paths": 0, "decisions": 0, "checks": 0, "solver_s": 0.0,
                   "obligations": 0, "classes": {}, "tasks": 0, "cex": [], "known_hits": {}, "samples": [],
                   "certificates": 0, "max_depth": 0, "wall_s": 0.0, "sample_pc": None}
            t_h = time.time()
            pending = []
            only_v = os.environ.get("SX_VARIANTS")
            for vidx in range(len(variants)):
                if only_v and str(vidx) not in only_v.split(","):
                    continue
                pending.append(pool.apply_async(_task, ((h.hid, vidx, [], 6, seed),)))
            per_variant_classes = [dict() for _ in variants]
            while pending:
                nxt = []
                for fut in pending:
                    if not fut.ready():
                        nxt.append(fut)
                        continue
                    r = fut.get()
                    agg["tasks"] += 1
                    for k in ("paths", "decisions", "checks", "solver_s", "obligations"):
                        agg[k] += r[k]
                    agg["max_depth"] = max(agg["max_depth"], r["max_depth"])
                    for k, n in r["classes"].items():
                        agg["classes"][k] = agg["classes"].get(k, 0) + n
                        per_variant_classes[r["vidx"]][k] = per_variant_classes[r["vidx"]].get(k, 0) + n
                    for k, n in r["known_hits"].items():
                        agg["known_hits"][k] = agg["known_hits"].get(k, 0) + n
                    if r["certificate"] == "unsat":
                        agg["certificates"] += 1
                    if r.get("sample_pc") and not agg["sample_pc"]:
                        agg["sample_pc"] = r["sample_pc"]
                    for c in r["cex"]:
                        c["vidx"] = r["vidx"]
                        agg["cex"].append(c)
                    for s in r["samples"]:
                        s["vidx"] = r["vidx"]
                        agg["samples"].append(s)
                    if r["inconclusive"]:
                        inconclusive.append("%s[v%d]: %s" % (h.hid, r["vidx"], r["inconclusive"]))
                        if verbose and r.get("trace"):
                            print(r["trace"], file=sys.stderr)
                    for p in r["leftover"]:
                        nxt.append(pool.apply_async(_task, ((h.hid, r["vidx"], p, h.task_paths, seed),)))
                pending = nxt
                if len(agg["cex"]) > 200 or len(inconclusive) > 20:
                    break
                time.sleep(0.01)
            if os.environ.get("SX_PROFILE"):
                # sizing aid: paths per variant (sum over outcome classes), heaviest first
                sizes = sorted(((sum(c.values()), vidx) for vidx, c in enumerate(per_variant_classes)), reverse=True)
                print("[profile %s] %s" % (h.hid, " ".join("v%d:%d" % (vidx, n) for n, vidx in sizes[:40])), flush=True)
            # vacuity: expected classes reached in every variant
            for vidx, var in enumerate(variants):
                missing = set(h.expected_classes(var)) - set(per_variant_classes[vidx])
                if missing and not any(i.startswith(h.hid) for i in inconclusive):
                    inconclusive.append("%s[v%d]: vacuity - outcome classes never reached: %s (reached %s)"
                                        % (h.hid, vidx, sorted(missing), per_variant_classes[vidx]))
            # translation validation against the real code in a clean interpreter
            rnd = random.Random(seed)
            samples = agg["samples"]
            if len(samples) > 60:
                samples = rnd.sample(samples, 60)
            jobs_c = [{"hid": h.hid, "vidx": s["vidx"], "values": s["values"]} for s in samples]
            try:
                outs = concrete_batch(pid, tier, jobs_c)
            except Exception as exc:
                outs = []
                inconclusive.append("%s: concrete runner failed: %s" % (h.hid, exc))
            for s, o in zip(samples, outs):
                tv_total += 1
                if o.get("error"):
                    inconclusive.append("%s: concrete run error: %s" % (h.hid, o["error"]))
                elif json.loads(json.dumps(s["out"])) != o["out"]:
                    inconclusive.append("%s: translation validation mismatch: values=%s engine=%s real=%s"
                                        % (h.hid, s["values"], s["out"], o["out"]))
                elif s["clauses"] != o["clauses"]:
                    # spec evaluated under the model by z3 vs. the same spec evaluated on the real run
                    inconclusive.append("%s: oracle mismatch on %s: solver-side %s concrete %s"
                                        % (h.hid, s["values"], s["clauses"], o["clauses"]))
            # counterexamples: replay before reporting
            seen = set()
            for c in agg["cex"]:
                key = (c["clause"], c["vidx"])
                if key in seen and len(seen) > 0 and sum(1 for v_ in violations if v_["hid"] == h.hid) >= 3:
                    continue
                seen.add(key)
                try:
                    o = concrete_batch(pid, tier, [{"hid": h.hid, "vidx": c["vidx"], "values": c["values"]}])[0]
                except Exception as exc:
                    inconclusive.append("%s: replay failed to run: %s" % (h.hid, exc))
                    continue
                if o.get("error"):
                    inconclusive.append("%s: replay error: %s" % (h.hid, o["error"]))
                    continue
                if o["clauses"].get(c["clause"]) is False:
                    n_replay += 1
                    path = write_replay(pid, tier, h.hid, c["vidx"], c["clause"], c["values"], n_replay)
                    violations.append({"hid": h.hid, "clause": c["clause"], "values": c["values"],
                                       "variant": variants[c["vidx"]], "real_out": o["out"], "replay": path})
                else:
                    inconclusive.append("%s: counterexample does not reproduce on the real code (clause %s, values %s, "
                                        "engine out %s, real out %s)" % (h.hid, c["clause"], c["values"], c["out"], o["out"]))
            agg["wall_s"] = time.time() - t_h
            agg["cex_n"] = len(agg["cex"])
            summary.append((h, agg))
            if verbose:
                print("[%s] variants=%d paths=%d decisions=%d obligations=%d solver=%.1fs checks=%d certs=%d/%d "
                      "classes=%s cex=%d known_hits=%s wall=%.1fs"
                      % (h.hid, len(variants), agg["paths"], agg["decisions"], agg["obligations"], agg["solver_s"],
                         agg["checks"], agg["certificates"], agg["tasks"], agg["classes"], len(agg["cex"]),
                         agg["known_hits"], agg["wall_s"]), flush=True)
    finally:
        pool.terminate()
        pool.join()

    # known findings: replay every open witness on the real code
    for k in kf_all:
        if k.get("status", "open") != "open":
            continue
        if only and k["harness"].split(".", 1)[1] not in only:
            continue
        try:
            o = concrete_batch(pid, tier if "tier" not in k else k["tier"],
                               [{"hid": k["harness"], "vidx": k.get("vidx", 0), "values": k["witness"],
                                 "variant": k.get("witness_variant")}])[0]
        except Exception as exc:
            inconclusive.append("known finding %s: witness replay failed: %s" % (k["id"], exc))
            continue
        if o.get("error"):
            inconclusive.append("known finding %s: witness replay error: %s" % (k["id"], o["error"]))
        elif o["clauses"].get(k["clause"]) is False:
            known_lines.append("KNOWN-FINDING: property=%s %s [%s clause=%s witness=%s]"
                               % (pid, k["what"], k["harness"], k["clause"], json.dumps(k["witness"], sort_keys=True)))
    for line in known_lines:
        print(line)

    wall = time.time() - t_start
    write_evidence(pid, tier, seed, summary, violations, inconclusive, known_lines, tv_total, wall)
    for v_ in violations:
        print("VIOLATION property=%s replay=%s" % (pid, v_["replay"]))
        print("  harness=%s clause=%s variant=%s values=%s real_out=%s"
              % (v_["hid"], v_["clause"], v_["variant"], v_["values"], v_["real_out"]))
    for i in inconclusive[:30]:
        print("INCONCLUSIVE: " + i)
    if violations:
        return EXIT_VIOLATION
    if inconclusive:
        return EXIT_INCONCLUSIVE
    print("OK property=%s tier=%s paths=%d obligations=%d wall=%.1fs"
          % (pid, tier, sum(a["paths"] for _, a in summary), sum(a["obligations"] for _, a in summary), wall))
    return EXIT_OK


def write_evidence(pid, tier, seed, summary, violations, inconclusive, known_lines, tv_total, wall):
    from . import core
    funcs = []
    files = set()
    for h, _ in summary:
        for f in h.functions:
            if f not in funcs:
                funcs.append(f)
            files.add(f.split(":")[0].replace(".", "/") + ".py")
    paths = sum(a["paths"] for _, a in summary)
    decisions = sum(a["decisions"] for _, a in summary)
    samples = []
    for h, a in summary:
        for s in a["samples"][:2]:
            samples.append({"harness": h.hid, "variant": h.variants(tier)[s["vidx"]], "input": s["values"],
                            "outcome": s["out"], "clauses_discharged": s["clauses"]})
        if a.get("sample_pc"):
            samples.append({"harness": h.hid, "path_condition_smt2": a["sample_pc"]})
    ev = {
        "property_id": pid,
        "tier": tier,
        "seed": int(seed),
        "level": "model_checking",
        "coverage": {
            "states": max(paths, 0),
            "transitions": max(decisions, 0),
            "traces_validated_against_impl": tv_total,
            "samples": samples[:40] or [{"note": "no path finished"}],
            "obligations": sum(a["obligations"] for _, a in summary),
            "discharged": sum(a["obligations"] for _, a in summary) - sum(a["cex_n"] for _, a in summary),
            "exhaustive": not inconclusive,
            "explanation": "states = feasible paths of the real functions explored by symbolic execution (each path's "
                           "input region is a z3 path condition over unbounded integers); transitions = branch decisions; "
                           "obligations = solver queries pre /\\ path /\\ not(post-clause) that must be unsat; every worker "
                           "subtree also discharged a coverage certificate pre /\\ prefix /\\ not(OR leaves) = unsat.",
            "functions_encoded": funcs,
            "source_files": {f: file_hash(f) for f in sorted(files)},
            "harnesses": [{
                "harness": h.hid, "bound": h.bound, "outside_claim": h.outside, "variants": a["variants"],
                "paths": a["paths"], "decisions": a["decisions"], "obligations": a["obligations"],
                "solver_queries": a["checks"], "solver_s": round(a["solver_s"], 3), "coverage_certificates_unsat": a["certificates"],
                "worker_tasks": a["tasks"], "outcome_classes": a["classes"], "max_path_depth": a["max_depth"],
                "counterexamples": a["cex_n"], "known_finding_hits": a["known_hits"], "wall_s": round(a["wall_s"], 2),
                "stubs": h.stubs,
            } for h, a in summary],
            "solver": "z3 " + __import__("z3").get_version_string(),
            "violations": [{k: v_[k] for k in ("hid", "clause", "values", "variant", "replay")} for v_ in violations],
            "inconclusive": inconclusive[:30],
            "known_findings_reported": known_lines,
        },
        "assumptions": sorted(set(core.SHIMS + [s for h, _ in summary for s in h.stubs] + [
            "bounded claim only: structure sizes as stated per harness; integers are unbounded mathematical ints",
            "CPython semantics of int/str round trip, sorted() stability and dict order are trusted",
        ])),
        "wall_s": round(wall, 2),
        "violations": len(violations),
    }
    os.makedirs(os.path.join(HERE, "evidence"), exist_ok=True)
    with open(os.path.join(HERE, "evidence", pid + ".json"), "w") as fh:
        json.dump(ev, fh, indent=1, sort_keys=True, default=str)
