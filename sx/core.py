"""sx core: symbolic values + path-exploring executor on z3.

The code under test is the real antiSMASH code; it is executed on SymInt/SymBool/SymReal values.
Every `bool()` of a symbolic condition asks the solver which sides are feasible and forks
(depth first, deterministic replay of decision prefixes).
"""
import builtins
import operator
import time
from fractions import Fraction

import z3

_o_isinstance = builtins.isinstance
_o_len = builtins.len
_o_min = builtins.min
_o_max = builtins.max
_o_int = builtins.int
_o_float = builtins.float
_o_abs = builtins.abs
_o_sum = builtins.sum
_o_round = builtins.round
_o_str = builtins.str


class Abort(BaseException):
    """engine control flow; deliberately not an Exception so code under test cannot swallow it"""


class Concretised(Abort):
    """a symbolic value reached a place that needs a concrete one: inconclusive"""


class Inconclusive(Abort):
    pass


class SpecBool(Abort):
    """bool() of a symbolic value while evaluating a specification: harness bug"""


class Divergence(Abort):
    """replay of a decision prefix saw a different condition: nondeterministic code/harness"""


class PathLimit(Abort):
    pass


SOLVER_TIMEOUT_MS = 120000


class Engine:
    def __init__(self):
        import os
        logic = os.environ.get("SX_LOGIC", "")
        self.solver = z3.SolverFor(logic) if logic else z3.Solver()
        self.solver.set("timeout", SOLVER_TIMEOUT_MS)
        self.mode = None
        self.pre = None
        self.trail = []
        self.prefix = []
        self.pc = []
        self.work = []
        self.deferred_pcs = []
        self.known = {}
        self.model = None
        self.tokens = []
        self.token_back = {}
        # stats
        self.n_checks = 0
        self.solver_s = 0.0
        self.n_decisions = 0
        self.n_forks = 0
        self.max_depth = 5000
        self.n_summaries = 0
        self.lazy_tokens = False   # harness opt-in: rendered ints are never compared as text
        self.nested = 0

    # ---- solver helpers
    def _check(self, *extra):
        t = time.time()
        if extra:
            self.solver.push()
            self.solver.add(*extra)
            r = self.solver.check()
            m = self.solver.model() if r == z3.sat else None
            self.solver.pop()
        else:
            r = self.solver.check()
            m = self.solver.model() if r == z3.sat else None
        self.solver_s += time.time() - t
        self.n_checks += 1
        if r == z3.unknown:
            raise Inconclusive("solver answered unknown: " + self.solver.reason_unknown())
        return r == z3.sat, m

    def feasible(self, cond):
        """is pre /\\ pc /\\ cond satisfiable (no decision recorded)"""
        ok, _ = self._check(cond)
        return ok

    def start_path(self, prefix):
        self.prefix = prefix
        self.trail = []
        self.pc = []
        self.known = {}
        self.model = None
        self.tokens = []
        self.token_back = {}
        self.nested = 0
        self.lazy_tokens = False      # per path: a harness opts in at the start of its run (workers serve several harnesses)
        self.path_serial = getattr(self, "path_serial", 0) + 1
        self.memo = {}
        self.solver.reset()
        self.solver.set("timeout", SOLVER_TIMEOUT_MS)
        if self.pre is not None:
            self.solver.add(self.pre)

    def _take(self, cond, choice, h):
        self.trail.append((choice, h))
        c = cond if choice else z3.Not(cond)
        self.pc.append(c)
        self.solver.add(c)
        self.known[cond.get_id()] = choice
        self.n_decisions += 1
        if _o_len(self.trail) > self.max_depth:
            raise Inconclusive("path deeper than max_depth")

    def branch(self, cond):
        if self.mode != "sym":
            raise SpecBool("bool() of symbolic value outside symbolic execution: %s" % cond)
        simp = z3.simplify(cond)
        if z3.is_true(simp):
            return True
        if z3.is_false(simp):
            return False
        # NB: decisions are keyed on the *unsimplified* condition - z3's simplifier orders commutative
        # arguments by internal ids, which is not stable between re-executions
        k = self.known.get(cond.get_id())
        if k is not None:
            return k
        if z3.is_not(cond):
            k = self.known.get(cond.arg(0).get_id())
            if k is not None:
                return not k
        i = _o_len(self.trail)
        h = cond
        if i < _o_len(self.prefix):
            choice, ph = self.prefix[i]
            if not (ph.eq(cond) if _o_isinstance(ph, z3.ExprRef) else ph == stable_hash(cond)):
                raise Divergence("replay divergence at decision %d: %s" % (i, cond))
            self._take(cond, choice, h)
            return choice
        if self.nested:
            # inside a function summary the exploration order must not depend on solver models,
            # otherwise the merged term differs between replays: always try the true side first
            can_t, _ = self._check(cond)
            can_f, _ = self._check(z3.Not(cond))
            if not (can_t or can_f):
                raise Inconclusive("infeasible path inside summary")
            if can_t and can_f:
                self.work.append(self.trail + [(False, h)])
            self._take(cond, can_t, h)
            return can_t
        if self.model is None:
            ok, m = self._check()
            if not ok:
                raise Inconclusive("infeasible path reached (prefix not satisfiable)")
            self.model = m
        mv = self.model.eval(cond, model_completion=True)
        if z3.is_true(mv):
            cur = True
        elif z3.is_false(mv):
            cur = False
        else:
            ok, m = self._check(cond)
            if ok:
                cur = True
                self.model = m
            else:
                cur = False
                self.model = None
        other = z3.Not(cond) if cur else cond
        ok, _ = self._check(other)
        if ok:
            self.work.append(self.trail + [(not cur, h)])
            self.deferred_pcs.append(z3.And(self.pc + [other]) if self.pc else other)
            self.n_forks += 1
        self._take(cond, cur, h)
        return cur

    # ---- function summaries (state merging)
    def summarise(self, fn, *args, **kw):
        """Explore a pure scalar-valued function in a nested exploration below the current path and merge
        its outcomes into one ite term, so the caller forks only where it branches itself."""
        if self.mode != "sym":
            return fn(*args, **kw)
        saved = (self.trail, self.prefix, self.pc, self.known, self.work, self.deferred_pcs, self.model)
        outcomes = []
        local_work = [[]]
        self.n_summaries += 1
        self.nested += 1
        try:
            while local_work:
                lp = local_work.pop()
                self.solver.push()
                self.trail, self.prefix, self.pc = [], lp, []
                self.known = dict(saved[3])
                self.work, self.deferred_pcs, self.model = local_work, [], None
                try:
                    val = fn(*args, **kw)
                finally:
                    self.solver.pop()
                outcomes.append((z3.And(self.pc) if self.pc else z3.BoolVal(True), val))
        finally:
            self.nested -= 1
            self.trail, self.prefix, self.pc, self.known, self.work, self.deferred_pcs, self.model = saved
        first = outcomes[-1][1]
        if type(first) in (SymBool, bool):
            acc = _zb(first)
            for cond, v in reversed(outcomes[:-1]):
                acc = z3.If(cond, _zb(v), acc)
            return SymBool(acc)
        acc = _zi(first)
        for cond, v in reversed(outcomes[:-1]):
            acc = z3.If(cond, _zi(v), acc)
        return _wrap_arith(acc)

    # ---- text tokens for rendered ints
    def token_for(self, z):
        for zprev, tok in self.tokens:
            if zprev.eq(z):
                return tok
        if not self.lazy_tokens:
            for zprev, tok in self.tokens:
                if self.branch(z == zprev):
                    return tok
        if z3.is_int_value(z):
            tok = str(z.as_long())
        else:
            tok = "§%d§" % _o_len(self.tokens)
        self.tokens.append((z, tok))
        self.token_back[tok] = z
        return tok


def stable_hash(cond):
    import zlib
    return zlib.crc32(cond.sexpr().encode())


def export_prefix(prefix):
    return [[c, h if _o_isinstance(h, _o_int) else stable_hash(h)] for c, h in prefix]


ENG = Engine()


# ------------------------------------------------------------------------------------------------
# symbolic values

def _zi(x):
    """z3 arithmetic term for x, or None"""
    t = type(x)
    if t is SymInt or t is SymReal:
        return x.z
    if t is SymBool:
        return z3.If(x.z, 1, 0)
    if t is bool:
        return z3.IntVal(1 if x else 0)
    if _o_isinstance(x, _o_int):
        return z3.IntVal(_o_int(x))
    if t is _o_float:
        if x != x or x in (_o_float("inf"), _o_float("-inf")):
            return None
        return z3.RealVal(str(rationalise(x)))
    if t is Fraction:
        return z3.RealVal(str(x))
    return None


def rationalise(x):
    """A double that is the nearest double of a simple fraction p/q (q <= 10**6) is read as p/q (0.2 -> 1/5,
    1/3 -> 1/3, 1.5 -> 3/2); any other double keeps its exact binary value. Sound for comparisons of
    int/int quotients (ints < 2**31) against such constants, see DESIGN 1.4."""
    fr = Fraction(x)
    simple = fr.limit_denominator(10 ** 6)
    if _o_float(simple) == x:
        return simple
    return fr


def _zb(x):
    t = type(x)
    if t is SymBool:
        return x.z
    if t is bool:
        return z3.BoolVal(x)
    if _o_isinstance(x, z3.BoolRef):
        return x
    if t is SymInt:
        return x.z != 0
    if x is None:
        return z3.BoolVal(False)
    raise TypeError("not a boolean: %r" % (x,))


def _wrap_arith(z):
    if not _o_isinstance(z, z3.ExprRef):
        return z
    if z.sort() == z3.IntSort():
        return SymInt(z)
    return SymReal(z)


class SymBool:
    __slots__ = ("z",)
    _sx_sym = True

    def __init__(self, z):
        if type(z) is SymBool:
            z = z.z
        elif type(z) is bool:
            z = z3.BoolVal(z)
        self.z = z

    def __bool__(self):
        return ENG.branch(self.z)

    def _b(self, o):
        if type(o) is SymBool:
            return o.z
        if type(o) is bool:
            return z3.BoolVal(o)
        return None

    def __and__(self, o):
        b = self._b(o)
        return NotImplemented if b is None else SymBool(z3.And(self.z, b))
    __rand__ = __and__

    def __or__(self, o):
        b = self._b(o)
        return NotImplemented if b is None else SymBool(z3.Or(self.z, b))
    __ror__ = __or__

    def __xor__(self, o):
        b = self._b(o)
        return NotImplemented if b is None else SymBool(z3.Xor(self.z, b))
    __rxor__ = __xor__

    def __invert__(self):
        raise Concretised("~ on SymBool")

    def __eq__(self, o):
        b = self._b(o)
        if b is None:
            zo = _zi(o)
            if zo is None:
                return NotImplemented
            return SymBool(z3.If(self.z, 1, 0) == zo)
        return SymBool(self.z == b)

    def __ne__(self, o):
        r = self.__eq__(o)
        if r is NotImplemented:
            return r
        return SymBool(z3.Not(r.z))

    def __add__(self, o):
        return SymInt(z3.If(self.z, 1, 0)) + o
    __radd__ = __add__

    def __hash__(self):
        raise Concretised("hash of SymBool")

    def __index__(self):
        raise Concretised("index of SymBool")

    def __repr__(self):
        return "SymBool(%s)" % self.z

    def __format__(self, spec):
        return "True" if ENG.branch(self.z) else "False"

    def __str__(self):
        return self.__format__("")


def _cmp(op):
    def f(self, o):
        zo = _zi(o)
        if zo is None:
            return NotImplemented
        return SymBool(op(self.z, zo))
    return f


def _floordiv(a, b):
    if z3.is_int_value(b) and b.as_long() > 0 and a.sort() == z3.IntSort():
        return a / b
    if a.sort() == z3.IntSort() and b.sort() == z3.IntSort():
        raise Concretised("floordiv by symbolic divisor")
    raise Concretised("floordiv on reals")


def _mod(a, b):
    if a.sort() != z3.IntSort() or b.sort() != z3.IntSort():
        raise Concretised("mod on reals")
    if z3.is_int_value(b) and b.as_long() > 0:
        return a % b
    # symbolic modulus: linearise a % b for a in [-4b, 5b), b > 0 (checked on the current path)
    ok = z3.And(b > 0, a >= -4 * b, a < 5 * b)
    if ENG.mode == "sym":
        if ENG.feasible(z3.Not(ok)):
            raise Concretised("mod with symbolic modulus outside the linearised range [-4n,5n)")
    res = a - 4 * b
    for k in (3, 2, 1, 0, -1, -2, -3, -4):
        res = z3.If(a < (k + 1) * b, a - k * b, res)
    return res


ALLOW_NONLINEAR_DIV = False


def _truediv(a, b):
    ra = z3.ToReal(a) if a.sort() == z3.IntSort() else a
    rb = z3.ToReal(b) if b.sort() == z3.IntSort() else b
    if z3.is_int_value(b) or z3.is_rational_value(b):
        return ra / rb
    if (z3.is_int_value(a) or z3.is_rational_value(a)) and ENG.mode == "sym" and not ENG.feasible(rb <= 0):
        # constant / positive symbolic value: kept as a quotient object that can only be ordered / compared
        return SymQuot(ra, rb)
    if ALLOW_NONLINEAR_DIV:
        # harness opted in: division by a symbolic (non-zero) value, handed to z3's nonlinear real arithmetic
        if ENG.mode == "sym" and ENG.feasible(rb == 0):
            raise Concretised("division by a possibly-zero symbolic value")
        return ra / rb
    raise Concretised("true division by symbolic value")


def _arith(op, swap=False, real=False):
    def f(self, o):
        zo = _zi(o)
        if zo is None:
            return NotImplemented
        a, b = (zo, self.z) if swap else (self.z, zo)
        if op is operator.mul and not (z3.is_int_value(a) or z3.is_int_value(b)
                                       or z3.is_rational_value(a) or z3.is_rational_value(b)):
            a, b = z3.simplify(a), z3.simplify(b)
            if not (z3.is_int_value(a) or z3.is_int_value(b)
                    or z3.is_rational_value(a) or z3.is_rational_value(b)):
                raise Concretised("symbolic * symbolic")
        if a.sort() != b.sort() and op in (operator.add, operator.sub, operator.mul):
            a = z3.ToReal(a) if a.sort() == z3.IntSort() else a
            b = z3.ToReal(b) if b.sort() == z3.IntSort() else b
        return _wrap_arith(op(a, b))
    return f


class SymInt:
    __slots__ = ("z",)
    _sx_sym = True

    def __init__(self, z=0, *_a):
        t = type(z)
        if t is SymInt:
            z = z.z
        elif t is SymBool:
            z = z3.If(z.z, 1, 0)
        elif _o_isinstance(z, _o_int):
            z = z3.IntVal(_o_int(z))
        elif t is str:
            z = _int_from_text(z).z
        self.z = z

    __lt__ = _cmp(operator.lt)
    __le__ = _cmp(operator.le)
    __gt__ = _cmp(operator.gt)
    __ge__ = _cmp(operator.ge)
    __eq__ = _cmp(operator.eq)
    __ne__ = _cmp(operator.ne)
    __add__ = _arith(operator.add)
    __radd__ = _arith(operator.add, True)
    __sub__ = _arith(operator.sub)
    __rsub__ = _arith(operator.sub, True)
    __mul__ = _arith(operator.mul)
    __rmul__ = _arith(operator.mul, True)
    __floordiv__ = _arith(_floordiv)
    __rfloordiv__ = _arith(_floordiv, True)
    __mod__ = _arith(_mod)
    __rmod__ = _arith(_mod, True)
    __truediv__ = _arith(_truediv)
    __rtruediv__ = _arith(_truediv, True)

    def __neg__(self):
        return SymInt(-self.z)

    def __pos__(self):
        return self

    def __abs__(self):
        return SymInt(z3.If(self.z >= 0, self.z, -self.z))

    def __bool__(self):
        return ENG.branch(self.z != 0)

    def __hash__(self):
        return 0

    def __index__(self):
        if z3.is_int_value(z3.simplify(self.z)):
            return z3.simplify(self.z).as_long()
        raise Concretised("index of SymInt %s" % self.z)

    def __int__(self):
        return self.__index__()

    def __format__(self, spec):
        if spec:
            raise Concretised("format of SymInt with spec %r" % spec)
        return ENG.token_for(z3.simplify(self.z))

    def __str__(self):
        return self.__format__("")

    def __repr__(self):
        return "SymInt(%s)" % self.z

    # Biopython position protocol bits (ExactPosition is an int subclass with these)
    @property
    def position(self):
        return self

    def _shift(self, offset):
        return self + offset

    def _flip(self, length):
        return length - self


class SymReal:
    """exact rational/real value; only ordered comparison, + - and * / by constants"""
    __slots__ = ("z",)
    _sx_sym = True

    def __init__(self, z):
        t = type(z)
        if t is SymReal:
            z = z.z
        elif t is SymInt:
            z = z3.ToReal(z.z)
        elif t in (_o_int, _o_float, Fraction):
            z = z3.RealVal(str(Fraction(z)))
        self.z = z

    __lt__ = _cmp(operator.lt)
    __le__ = _cmp(operator.le)
    __gt__ = _cmp(operator.gt)
    __ge__ = _cmp(operator.ge)
    __eq__ = _cmp(operator.eq)
    __ne__ = _cmp(operator.ne)
    __add__ = _arith(operator.add)
    __radd__ = _arith(operator.add, True)
    __sub__ = _arith(operator.sub)
    __rsub__ = _arith(operator.sub, True)
    __mul__ = _arith(operator.mul)
    __rmul__ = _arith(operator.mul, True)
    __truediv__ = _arith(_truediv)
    __rtruediv__ = _arith(_truediv, True)

    def __neg__(self):
        return SymReal(-self.z)

    def __abs__(self):
        return SymReal(z3.If(self.z >= 0, self.z, -self.z))

    def __bool__(self):
        return ENG.branch(self.z != 0)

    def __hash__(self):
        return 0

    def __float__(self):
        raise Concretised("float() of SymReal")

    def __floor__(self):
        return SymInt(z3.ToInt(self.z))

    def __trunc__(self):
        return SymInt(z3.If(self.z >= 0, z3.ToInt(self.z), -z3.ToInt(-self.z)))

    def __ceil__(self):
        return SymInt(-z3.ToInt(-self.z))

    def __format__(self, spec):
        if spec:
            raise Concretised("format of SymReal with spec %r" % spec)
        return "<symbolic real>"     # only ever rendered into messages; any numeric use of the text would fail loudly

    def __str__(self):
        return self.__format__("")

    def __repr__(self):
        return "SymReal(%s)" % self.z


class SymQuot:
    """constant / positive symbolic value; supports ordering and equality against another SymQuot or a constant by
    cross-multiplication (linear), nothing else"""
    __slots__ = ("num", "den")
    _sx_sym = True

    def __init__(self, num, den):
        self.num, self.den = num, den

    def _pair(self, o):
        if type(o) is SymQuot:
            return o.num, o.den
        zo = _zi(o)
        if zo is not None and (z3.is_int_value(zo) or z3.is_rational_value(zo)):
            return (z3.ToReal(zo) if zo.sort() == z3.IntSort() else zo), z3.RealVal(1)
        return None

    def _cmp(self, o, op):
        p = self._pair(o)
        if p is None:
            return NotImplemented
        return SymBool(op(self.num * p[1], p[0] * self.den))

    def __lt__(self, o):
        return self._cmp(o, operator.lt)

    def __le__(self, o):
        return self._cmp(o, operator.le)

    def __gt__(self, o):
        return self._cmp(o, operator.gt)

    def __ge__(self, o):
        return self._cmp(o, operator.ge)

    def __eq__(self, o):
        return self._cmp(o, operator.eq)

    def __ne__(self, o):
        return self._cmp(o, operator.ne)

    def __hash__(self):
        return 0


class SymRecip:
    """a positive real given by its reciprocal: `c / SymRecip(inv)` is the linear term c * inv. Used where the code under
    test only ever divides a constant by the value (hmmer.remove_overlapping: cutoff / score)."""
    __slots__ = ("inv",)
    _sx_sym = True

    def __init__(self, inv):
        self.inv = inv.z if type(inv) is SymReal else inv

    def __rtruediv__(self, o):
        zo = _zi(o)
        if zo is None or not (z3.is_int_value(zo) or z3.is_rational_value(zo)):
            raise Concretised("SymRecip supports only constant / value")
        return SymReal((z3.ToReal(zo) if zo.sort() == z3.IntSort() else zo) * self.inv)

    def __eq__(self, o):
        if type(o) is SymRecip:
            return SymBool(self.inv == o.inv)
        return NotImplemented

    def __ne__(self, o):
        if type(o) is SymRecip:
            return SymBool(self.inv != o.inv)
        return NotImplemented

    def __hash__(self):
        return 0

    def __repr__(self):
        return "SymRecip(%s)" % self.inv


class SymName:
    """a string drawn from a finite alphabet, given by a symbolic index. Equality, membership in wrapped constant sets
    (SymSet), startswith and substring tests stay symbolic; str()/format() fork over the members still feasible."""
    __slots__ = ("idx", "names")
    _sx_sym = True

    def __init__(self, idx, names):
        self.idx = idx.z if type(idx) is SymInt else idx
        self.names = names

    def _among(self, pred):
        hits = [i for i, nm in enumerate(self.names) if pred(nm)]
        if not hits:
            return SymBool(z3.BoolVal(False))
        return SymBool(z3.Or([self.idx == i for i in hits]))

    def __eq__(self, o):
        if type(o) is SymName:
            if o.names is self.names:
                return SymBool(self.idx == o.idx)
            return SymBool(z3.Or([z3.And(self.idx == i, o.idx == j) for i, a in enumerate(self.names)
                                  for j, b in enumerate(o.names) if a == b] or [z3.BoolVal(False)]))
        if _o_isinstance(o, str):
            return self._among(lambda nm: nm == o)
        return NotImplemented

    def __ne__(self, o):
        r = self.__eq__(o)
        return r if r is NotImplemented else SymBool(z3.Not(r.z))

    def startswith(self, prefix):
        return self._among(lambda nm: nm.startswith(prefix))

    def endswith(self, suffix):
        return self._among(lambda nm: nm.endswith(suffix))

    def __contains__(self, sub):
        return True if self._among(lambda nm: sub in nm) else False

    def __hash__(self):
        # native set / dict use: fork over the feasible members (sound and exhaustive, costs paths)
        return hash(self.concretise())

    def concretise(self):
        for i, nm in enumerate(self.names[:-1]):
            if ENG.branch(self.idx == i):
                return nm
        return self.names[-1]

    def __str__(self):
        return self.concretise()

    def __format__(self, spec):
        return format(self.concretise(), spec)

    def __repr__(self):
        return "SymName(%s)" % self.idx


class SymEnum:
    """a member of an IntEnum given by a symbolic value; equality with members stays symbolic, str()/hash fork"""
    __slots__ = ("idx", "enum", "members")
    _sx_sym = True

    def __init__(self, idx, enum, members):
        self.idx = idx.z if type(idx) is SymInt else idx
        self.enum = enum
        self.members = list(members)

    @property
    def value(self):
        return SymInt(self.idx)

    def __eq__(self, o):
        if type(o) is SymEnum:
            return SymBool(self.idx == o.idx)
        if _o_isinstance(o, self.enum):
            return SymBool(self.idx == _o_int(o.value)) if o in self.members else False
        return NotImplemented

    def __ne__(self, o):
        r = self.__eq__(o)
        if r is NotImplemented:
            return r
        return (not r) if type(r) is bool else SymBool(z3.Not(r.z))

    def concretise(self):
        for m in self.members[:-1]:
            if ENG.branch(self.idx == _o_int(m.value)):
                return m
        return self.members[-1]

    def __hash__(self):
        return hash(self.concretise())

    def __str__(self):
        return str(self.concretise())

    def __format__(self, spec):
        return format(self.concretise(), spec)

    def __repr__(self):
        return "SymEnum(%s)" % self.idx

    def __getattr__(self, name):
        # methods and class attributes of the enum, evaluated on the concretised member (forks)
        return getattr(self.concretise(), name)


class SymSeq:
    """a nucleotide string of concrete length whose characters are symbolic names over a small alphabet; supports what
    scan_orfs needs: upper(), len(), slicing by concrete indices, equality with a plain string"""
    __slots__ = ("chars",)
    _sx_sym = True

    def __init__(self, chars):
        self.chars = list(chars)

    def upper(self):
        return SymSeq([SymName(c.idx, [n.upper() for n in c.names]) for c in self.chars])

    def __len__(self):
        return _o_len(self.chars)

    def __getitem__(self, key):
        if _o_isinstance(key, slice):
            return SymSeq(self.chars[key])
        return self.chars[key]

    def __eq__(self, o):
        if _o_isinstance(o, _o_str):
            if _o_len(o) != _o_len(self.chars):
                return False
            return SymBool(z3.And([(c == ch).z for c, ch in zip(self.chars, o)]))
        return NotImplemented

    def __ne__(self, o):
        r = self.__eq__(o)
        if r is NotImplemented or type(r) is bool:
            return r if r is NotImplemented else not r
        return SymBool(z3.Not(r.z))

    def __hash__(self):
        raise Concretised("hash of a symbolic sequence")


class SymSet(frozenset):
    """a module-level constant set re-wrapped so that membership of a SymName stays symbolic (data only, no logic)"""
    def __contains__(self, x):
        if type(x) is SymName:
            return x._among(lambda nm: frozenset.__contains__(self, nm))
        return frozenset.__contains__(self, x)

    def union(self, *others):
        out = set(self)
        for o in others:
            out |= set(o)
        return SymSet(out)


def _int_from_text(text):
    tok = ENG.token_back.get(text.strip())
    if tok is not None:
        return SymInt(tok)
    return SymInt(z3.IntVal(_o_int(text)))


# ---- constructors used by logic.py

def mk_and(xs):
    return SymBool(z3.And([_zb(x) for x in xs])) if xs else True


def mk_or(xs):
    return SymBool(z3.Or([_zb(x) for x in xs])) if xs else False


def mk_not(x):
    return SymBool(z3.Not(_zb(x)))


def mk_iff(a, b):
    return SymBool(_zb(a) == _zb(b))


def mk_ite(c, a, b):
    zc = _zb(c)
    if type(a) in (SymBool, bool) and type(b) in (SymBool, bool):
        return SymBool(z3.If(zc, _zb(a), _zb(b)))
    za, zb_ = _zi(a), _zi(b)
    if za is None or zb_ is None:
        raise TypeError("ite over non-scalar values")
    if za.sort() != zb_.sort():
        za = z3.ToReal(za) if za.sort() == z3.IntSort() else za
        zb_ = z3.ToReal(zb_) if zb_.sort() == z3.IntSort() else zb_
    return _wrap_arith(z3.If(zc, za, zb_))


def sym_int(name):
    return SymInt(z3.Int(name))


def sym_bool(name):
    return SymBool(z3.Bool(name))


def sym_real(name):
    return SymReal(z3.Real(name))


# ------------------------------------------------------------------------------------------------
# replacement builtins (injected into the globals of the modules under test only)

_SYM_TYPES = (SymInt, SymBool, SymReal)


def sx_isinstance(obj, types):
    if _o_isinstance(obj, types):
        return True
    t = type(obj)
    if t is SymInt:
        return _o_isinstance(0, types)
    if t is SymBool:
        return _o_isinstance(True, types)
    if t is SymReal:
        return _o_isinstance(0.5, types)
    if t is SymName:
        return _o_isinstance("", types)
    if t is SymEnum:
        return _o_isinstance(obj.members[0], types)
    return False


def sx_len(o):
    f = getattr(type(o), "__len__", None)
    if f is None:
        raise TypeError("object of type %r has no len()" % type(o).__name__)
    return f(o)


def _minmax_rendered(items, is_min):
    """min / max of texts that are rendered numbers: Python compares them as text, i.e. by their decimal digits from the left
    ("10" < "9"). Modelled for numbers in [0, 10^6): left-aligned digits first, the shorter text first on a tie."""
    def value(text):
        z = ENG.token_back.get(text)
        if z is None:
            if not text.isdigit():
                raise Concretised("text comparison of %r" % text)
            z = z3.IntVal(_o_int(text))
        if not ENG.branch(z3.And(z >= 0, z < 10 ** 6)):
            raise Concretised("text comparison of a rendered number outside [0, 10^6)")
        return z

    def aligned(z):
        out = z
        for digits in (5, 4, 3, 2, 1):
            out = z3.If(z < 10 ** digits, z * 10 ** (6 - digits), out)
        return out
    acc, zacc = items[0], value(items[0])
    for item in items[1:]:
        zi = value(item)
        less = z3.Or(aligned(zi) < aligned(zacc), z3.And(aligned(zi) == aligned(zacc), zi < zacc))
        more = z3.Or(aligned(zi) > aligned(zacc), z3.And(aligned(zi) == aligned(zacc), zi > zacc))
        if ENG.branch(less if is_min else more):
            acc, zacc = item, zi
    return acc


def _minmax(is_min):
    orig = _o_min if is_min else _o_max

    def f(*args, **kw):
        if kw:
            return orig(*args, **kw)
        items = list(args[0]) if _o_len(args) == 1 else list(args)
        if not items:
            return orig(items)
        if not any(type(i) in _SYM_TYPES for i in items):
            if all(type(i) is _o_str for i in items) and any("§" in i for i in items):
                return _minmax_rendered(items, is_min)
            return orig(items)
        acc = items[0]
        for i in items[1:]:
            za, zi = _zi(acc), _zi(i)
            if za.sort() != zi.sort():
                za = z3.ToReal(za) if za.sort() == z3.IntSort() else za
                zi = z3.ToReal(zi) if zi.sort() == z3.IntSort() else zi
            acc = _wrap_arith(z3.If(zi < za, zi, za) if is_min else z3.If(zi > za, zi, za))
        return acc
    f.__name__ = "min" if is_min else "max"
    return f


sx_min = _minmax(True)
sx_max = _minmax(False)


class _IntMeta(type):
    def __instancecheck__(cls, obj):
        return sx_isinstance(obj, _o_int)

    def __subclasscheck__(cls, sub):
        return issubclass(sub, _o_int)


class sx_int(_o_int, metaclass=_IntMeta):
    """stands in for the name `int` inside the modules under test"""
    def __new__(cls, x=0, *a):
        t = type(x)
        if t is SymInt:
            return x
        if t is SymBool:
            return SymInt(x)
        if t is SymReal:
            raise Concretised("int() of SymReal")
        if t is str and a == ():
            tok = ENG.token_back.get(x.strip())
            if tok is not None:
                return SymInt(tok)
        return _o_int(x, *a)


sx_int.__name__ = "int"


class _FloatMeta(type):
    def __instancecheck__(cls, obj):
        return sx_isinstance(obj, _o_float)

    def __subclasscheck__(cls, sub):
        return issubclass(sub, _o_float)


class sx_float(_o_float, metaclass=_FloatMeta):
    def __new__(cls, x=0.0):
        t = type(x)
        if t is SymReal:
            return x
        if t is SymInt:
            return SymReal(x)
        return _o_float(x)


sx_float.__name__ = "float"


class _StrMeta(type):
    def __instancecheck__(cls, obj):
        return _o_isinstance(obj, _o_str) or type(obj) is SymName

    def __subclasscheck__(cls, sub):
        return issubclass(sub, _o_str)


class sx_str(str, metaclass=_StrMeta):
    """stands in for the name `str` inside the modules under test: str(symbolic name) keeps the name symbolic"""
    def __new__(cls, x="", *a):
        if type(x) is SymName and not a:
            return x
        return _o_str(x, *a)


sx_str.__name__ = "str"


def sx_round(x, nd=None):
    if type(x) in _SYM_TYPES:
        raise Concretised("round() of symbolic value")
    return _o_round(x, nd) if nd is not None else _o_round(x)


def sx_bool(x=False):
    """bool(x) inside modules under test; forks like an `if`"""
    return True if x else False


INJECT = {
    "isinstance": sx_isinstance,
    "len": sx_len,
    "min": sx_min,
    "max": sx_max,
    "int": sx_int,
    "float": sx_float,
    "round": sx_round,
    "str": sx_str,
}

_installed = False
SHIMS = []


def install(extra_modules=()):
    """Make the real code runnable on symbolic values. Idempotent. Call after importing antismash."""
    global _installed
    import sys
    import Bio.SeqFeature as sf
    mods = [m for name, m in list(sys.modules.items())
            if m is not None and (name.startswith("antismash.") or name in ("Bio.SeqFeature", "Bio.SeqRecord") or name in extra_modules)]
    for m in mods:
        for k, v in INJECT.items():
            # never shadow a module's own definition of the name
            if k in m.__dict__ and m.__dict__[k] not in INJECT.values():
                continue
            m.__dict__[k] = v
    if _installed:
        return
    _installed = True

    _ep = sf.ExactPosition

    class EP(_ep):
        def __new__(cls, position, extension=0):
            if type(position) is SymInt:
                return position
            return SymInt(z3.IntVal(_o_int(position)))
    EP.__name__ = "ExactPosition"
    sf.ExactPosition = EP
    SHIMS.append("Bio.SeqFeature.ExactPosition -> identity on symbolic ints (constants wrapped)")
    for name, m in list(sys.modules.items()):
        if m is not None and name.startswith("antismash.") and m.__dict__.get("ExactPosition") is _ep:
            m.__dict__["ExactPosition"] = EP

    def _sl_len(self):
        return sx_int(self._end) - sx_int(self._start)
    sf.SimpleLocation.__len__ = _sl_len
    SHIMS.append("Bio.SeqFeature.SimpleLocation.__len__ -> same expression on engine ints")

    def _loc_bool(self):
        return True if sx_len(self) != 0 else False
    sf.SimpleLocation.__bool__ = _loc_bool
    sf.CompoundLocation.__bool__ = _loc_bool
    SHIMS.append("Bio SimpleLocation/CompoundLocation.__bool__ = (len(location) != 0)  [same reason as Record.__bool__]")

    try:
        from antismash.common.secmet.record import Record
        Record.__bool__ = lambda self: True if sx_len(self) != 0 else False
        SHIMS.append("Record.__bool__ = (len(record) != 0)  [CPython derives truthiness from __len__, which must be a native int]")
    except ImportError:
        pass

    import logging
    logging.disable(logging.CRITICAL)
    SHIMS.append("logging disabled")


def eval_model(model, obj):
    """evaluate a (nested) outcome structure under a z3 model -> plain python values"""
    t = type(obj)
    if t is SymInt:
        v = model.eval(obj.z, model_completion=True)
        return v.as_long()
    if t is SymBool:
        return z3.is_true(model.eval(obj.z, model_completion=True))
    if t is SymReal:
        v = model.eval(obj.z, model_completion=True)
        return str(Fraction(v.numerator_as_long(), v.denominator_as_long()))
    if t in (list, tuple):
        return [eval_model(model, o) for o in obj]
    if t is dict:
        return {k: eval_model(model, v) for k, v in obj.items()}
    if t is str:
        # rendered-int tokens back to digits
        if "§" in obj:
            out = obj
            for tok, z in ENG.token_back.items():
                if tok in out and tok.startswith("§"):
                    out = out.replace(tok, str(model.eval(z, model_completion=True).as_long()))
            return out
        return obj
    return obj
