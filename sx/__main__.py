"""sx command line: python -m sx check <ID> --tier quick|thorough [--only harness,...] [--jobs N]"""
import argparse
import os
import sys


def main():
    ap = argparse.ArgumentParser(prog="sx")
    sub = ap.add_subparsers(dest="cmd", required=True)
    c = sub.add_parser("check")
    c.add_argument("pid")
    c.add_argument("--tier", default=os.environ.get("VERIF_TIER", "quick"), choices=["quick", "thorough"])
    c.add_argument("--only", default="")
    c.add_argument("--jobs", type=int, default=0)
    args = ap.parse_args()
    seed = int(os.environ.get("VERIF_SEED", "0") or 0)
    if args.cmd == "check":
        pid = args.pid.upper()
        if pid == "C16":
            from . import xhair
            sys.exit(xhair.run(args.tier, seed))
        from . import runner
        try:
            rc = runner.run_property(pid, args.tier, only=[x for x in args.only.split(",") if x] or None,
                                     jobs=args.jobs or None, seed=seed)
        except Exception:
            import traceback
            traceback.print_exc()
            rc = 2
        sys.exit(rc)


if __name__ == "__main__":
    main()
