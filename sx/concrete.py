"""Concrete execution of a harness on the real code in a clean interpreter (no engine, no z3, real Biopython).
Used for translation validation, counterexample replay and known-finding witnesses.
stdin: JSON list of jobs {hid, vidx, values[, variant]}; stdout last line: JSON list of results."""
import importlib
import json
import sys
from fractions import Fraction


def _harness(pid, hid):
    mod = importlib.import_module("sx.harness." + pid.lower())
    for h in mod.HARNESSES:
        if h.hid == hid:
            return h
    raise KeyError(hid)


def _plain(o):
    from sx.hbase import Raised
    if isinstance(o, Raised):
        return o.canon()
    if isinstance(o, bool) or o is None or isinstance(o, str):
        return o
    if isinstance(o, int):
        return int(o)
    if isinstance(o, Fraction):
        return str(o)
    if isinstance(o, float):
        fr = Fraction(o)
        simple = fr.limit_denominator(10 ** 6)
        return str(simple if float(simple) == o else fr)
    if isinstance(o, (list, tuple)):
        return [_plain(x) for x in o]
    if isinstance(o, dict):
        return {str(k): _plain(v) for k, v in o.items()}
    return repr(o)


def run_one(pid, tier, job):
    from sx.hbase import raised_from
    h = _harness(pid, job["hid"])
    var = job.get("variant") or h.variants(tier)[job["vidx"]]
    kinds = h.vars(var)
    v = {}
    for k, kind in kinds.items():
        val = job["values"].get(k, 0)
        if kind == "real":
            val = Fraction(val) if getattr(h, "exact_reals", False) else float(Fraction(val))   # the real code works on doubles
        elif kind == "bool":
            val = bool(val)
        else:
            val = int(val)
        v[k] = val
    res = {"out": None, "clauses": {}, "error": None, "pre": None}
    try:
        res["pre"] = bool(h.pre(var, v))
        try:
            out = h.run(var, v)
        except Exception as exc:
            out = raised_from(exc)
            res["message"] = "%s: %s" % (type(exc).__name__, str(exc)[:300])
        res["out"] = _plain(out)
        for name, f in h.post(var, v, out):
            res["clauses"][name] = bool(f) and res["clauses"].get(name, True)
    except Exception as exc:
        import traceback
        res["error"] = traceback.format_exc()[-1500:]
    return res


def main():
    pid, tier = sys.argv[1], sys.argv[2]
    import logging
    logging.disable(logging.CRITICAL)
    jobs = json.loads(sys.stdin.read())
    out = [run_one(pid, tier, j) for j in jobs]
    print(json.dumps(out))


if __name__ == "__main__":
    main()
