"""Polymorphic logic helpers for specifications.

The same spec function is evaluated
  * symbolically (values are sx.core.SymInt/SymBool/SymReal -> result is a SymBool wrapping a z3 formula)
  * concretely   (values are plain ints/bools/Fractions -> result is a plain bool)
so the oracle used by the solver and the oracle used by the replay on the real code are one text.
No z3 import happens here unless a symbolic value is actually present.
"""
from fractions import Fraction


def issym(x):
    return getattr(type(x), "_sx_sym", False)


def _flat(xs):
    out = []
    for x in xs:
        if isinstance(x, (list, tuple)) or hasattr(x, "__next__"):
            out.extend(_flat(list(x)))
        else:
            out.append(x)
    return out


def And(*xs):
    xs = _flat(xs)
    if any(issym(x) for x in xs):
        from .core import mk_and
        return mk_and(xs)
    return all(bool(x) for x in xs)


def Or(*xs):
    xs = _flat(xs)
    if any(issym(x) for x in xs):
        from .core import mk_or
        return mk_or(xs)
    return any(bool(x) for x in xs)


def Not(x):
    if issym(x):
        from .core import mk_not
        return mk_not(x)
    return not x


def Implies(a, b):
    return Or(Not(a), b)


def Iff(a, b):
    if issym(a) or issym(b):
        from .core import mk_iff
        return mk_iff(a, b)
    return bool(a) == bool(b)


def If(c, a, b):
    if issym(c) or issym(a) or issym(b):
        from .core import mk_ite
        return mk_ite(c, a, b)
    return a if c else b


def Min(*xs):
    xs = _flat(xs)
    acc = xs[0]
    for x in xs[1:]:
        acc = If(x < acc, x, acc)
    return acc


def Max(*xs):
    xs = _flat(xs)
    acc = xs[0]
    for x in xs[1:]:
        acc = If(x > acc, x, acc)
    return acc


def Abs(x):
    return If(x >= 0, x, -x)


def Sum(*xs):
    xs = _flat(xs)
    acc = 0
    for x in xs:
        acc = acc + x
    return acc


def Count(*xs):
    """number of true booleans"""
    return Sum([If(x, 1, 0) for x in _flat(xs)])


def Mod(a, n):
    """a mod n for n > 0 (python semantics); symbolic n is handled by the engine's linearisation"""
    return a % n


def ExactlyOne(*xs):
    return Count(*xs) == 1


def closure(n, rel):
    """Reflexive-transitive closure of a symmetric relation given as rel[i][j] (polymorphic booleans),
    unrolled Floyd-Warshall; exact for any n (n rounds)."""
    reach = [[True if i == j else rel[i][j] for j in range(n)] for i in range(n)]
    for k in range(n):
        reach = [[Or(reach[i][j], And(reach[i][k], reach[k][j])) for j in range(n)] for i in range(n)]
    return reach


def to_fraction(x):
    if isinstance(x, str):
        return Fraction(x)
    return x
