"""One fixed, semantics-preserving source rewrite used by the set-order harnesses: set displays `{a, b}` and set
comprehensions inside a chosen function become calls of the module-level name `set` (which the harness binds to the
iteration-order model hbase.ASet). On ordinary values the rewritten function behaves exactly like the original."""
import ast
import inspect
import textwrap


class _SetDisplays(ast.NodeTransformer):
    def visit_Set(self, node):
        self.generic_visit(node)
        return ast.copy_location(ast.Call(func=ast.Name(id="set", ctx=ast.Load()),
                                          args=[ast.List(elts=node.elts, ctx=ast.Load())], keywords=[]), node)

    def visit_SetComp(self, node):
        self.generic_visit(node)
        return ast.copy_location(ast.Call(func=ast.Name(id="set", ctx=ast.Load()),
                                          args=[ast.ListComp(elt=node.elt, generators=node.generators)], keywords=[]), node)


def set_displays_to_calls(func):
    """re-defines `func` in its own module with set displays routed through the name `set`; returns the new function"""
    if getattr(func, "_sx_rewritten", False):
        return func
    source = textwrap.dedent(inspect.getsource(func))
    tree = _SetDisplays().visit(ast.parse(source))
    ast.fix_missing_locations(tree)
    namespace = func.__globals__
    exec(compile(tree, inspect.getsourcefile(func) or "<rewritten>", "exec"), namespace)  # pylint: disable=exec-used
    new = namespace[func.__name__]
    new._sx_rewritten = True
    return new
