#!/bin/sh
# Build the overlay venv (z3 + crosshair on top of /venv, /repo on the path) from the offline wheelhouse.
set -e
HERE="$(cd "$(dirname "$0")" && pwd)"
V="$HERE/.venv"
if [ ! -x "$V/bin/python" ] || ! "$V/bin/python" -c 'import z3, crosshair' >/dev/null 2>&1; then
  rm -rf "$V"
  /venv/bin/python -m venv "$V"
  SP="$V/lib/python3.12/site-packages"
  printf "import site; site.addsitedir('/venv/lib/python3.12/site-packages')\n/repo\n" > "$SP/_base.pth"
  PIP_NO_INDEX=1 "$V/bin/pip" install -q --no-index --find-links /opt/veriftools/wheels z3-solver crosshair-tool >/dev/null
fi
