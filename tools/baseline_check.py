#!/usr/bin/env python3
"""Run the repository's pinned test suite (guard off) and compare with /root/.vp/BASELINE.json stable_pass."""
import json, os, subprocess, sys, tempfile, xml.etree.ElementTree as ET
repo = sys.argv[1] if len(sys.argv) > 1 else "/repo"
base = json.load(open("/root/.vp/BASELINE.json"))
fd, path = tempfile.mkstemp(suffix=".xml"); os.close(fd)
env = dict(os.environ); env.pop("ANTISMASH_VERIF", None)
subprocess.run(["/venv/bin/python", "-m", "pytest", "-ra", "-q", "-p", "no:cacheprovider", "--timeout=900",
                "--continue-on-collection-errors", "--junitxml=" + path], cwd=repo, env=env,
               stdout=subprocess.DEVNULL, stderr=subprocess.DEVNULL)
passed = set()
for tc in ET.parse(path).getroot().iter("testcase"):
    if not any(ch.tag in ("failure", "error", "skipped") for ch in tc):
        passed.add(tc.get("classname") + "::" + tc.get("name"))
os.unlink(path)
stable = set(base["stable_pass"])
missing = sorted(stable - passed)
print("stable_pass=%d passed_now=%d missing=%d" % (len(stable), len(passed), len(missing)))
for m in missing[:40]:
    print("  NOT PASSING:", m)
sys.exit(1 if missing else 0)
