#!/bin/sh
# run every claimed check of MANIFEST.json once at the given tier (default quick); prints one status line each
TIER=${1:-quick}
cd "$(dirname "$0")/.."
for pid in $(python3 -c "import json;print(' '.join(c['property_id'] for c in json.load(open('MANIFEST.json'))['checks']))"); do
  s=$(date +%s)
  ./sx.sh check $pid --tier $TIER > /tmp/run_all_$pid.log 2>&1
  rc=$?
  echo "$pid rc=$rc $(( $(date +%s) - s ))s $(tail -1 /tmp/run_all_$pid.log | cut -c1-150)"
done
