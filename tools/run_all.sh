#!/bin/sh
# run every claimed check of MANIFEST.json once at the given tier (default quick); prints one status line each
# usage: tools/run_all.sh [quick|thorough] [per-check timeout in seconds] [ids...]
TIER=${1:-quick}
LIMIT=${2:-3600}
shift 2 2>/dev/null
cd "$(dirname "$0")/.."
IDS="$@"
[ -z "$IDS" ] && IDS=$(python3 -c "import json;print(' '.join(c['property_id'] for c in json.load(open('MANIFEST.json'))['checks']))")
for pid in $IDS; do
  s=$(date +%s)
  timeout $LIMIT ./sx.sh check $pid --tier $TIER > /tmp/run_all_${TIER}_$pid.log 2>&1
  rc=$?
  pkill -f "[p]ython -m sx check $pid" 2>/dev/null
  echo "$pid rc=$rc $(( $(date +%s) - s ))s $(grep -E '^OK|^INCONCLUSIVE|^VIOLATION' /tmp/run_all_${TIER}_$pid.log | tail -1 | cut -c1-150)"
done
