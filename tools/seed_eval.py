#!/usr/bin/env python3
"""Confirm a seeded breaking change in a scratch worktree, then keep it under /verif/seeded/.
usage: seed_eval.py <PID> <i> [source_dir]"""
import json, os, shutil, subprocess, sys
pid, idx = sys.argv[1], sys.argv[2]
src = sys.argv[3] if len(sys.argv) > 3 else "/tmp/seed/%s/seed_out" % pid
wt = "/tmp/sv_%s_%s" % (pid, idx)
patch = os.path.join(src, "patch_%s.diff" % idx)
demo = os.path.join(src, "demo_%s.py" % idx)
meta = json.load(open(os.path.join(src, "meta_%s.json" % idx)))
def sh(cmd, **kw):
    return subprocess.run(cmd, shell=True, text=True, capture_output=True, **kw)
sh("git -C /repo worktree remove --force %s" % wt)
r = sh("git -C /repo worktree add --detach %s HEAD" % wt)
assert r.returncode == 0, r.stderr
result = {"property": pid, "index": idx}
try:
    os.makedirs(wt + "/seed_out", exist_ok=True)
    shutil.copy(demo, wt + "/seed_out/demo.py")
    r0 = sh("/venv/bin/python seed_out/demo.py", cwd=wt)
    result["demo_unpatched_exit"] = r0.returncode
    r = sh("git apply %s" % patch, cwd=wt)
    if r.returncode != 0:
        r = sh("git apply --3way %s" % patch, cwd=wt)
    result["applies"] = r.returncode == 0
    if r.returncode == 0:
        r1 = sh("/venv/bin/python seed_out/demo.py", cwd=wt)
        result["demo_patched_exit"] = r1.returncode
        result["demo_patched_tail"] = (r1.stdout + r1.stderr)[-600:]
        sh("rm -rf seed_out", cwd=wt)
        rb = sh("python3 /verif/tools/baseline_check.py %s" % wt)
        result["baseline"] = rb.stdout.strip().splitlines()[0] if rb.stdout else rb.stderr[-300:]
        result["tests_pass"] = rb.returncode == 0
        diff = sh("git diff -- antismash", cwd=wt).stdout
finally:
    sh("git -C /repo worktree remove --force %s" % wt)
ok = result.get("applies") and result.get("tests_pass") and result.get("demo_unpatched_exit") == 0 and result.get("demo_patched_exit") == 1
result["confirmed"] = bool(ok)
print(json.dumps(result, indent=1))
if ok:
    out = "/verif/seeded/%s_%s" % (pid, idx)
    os.makedirs(out, exist_ok=True)
    open(out + "/patch.diff", "w").write(diff)
    shutil.copy(demo, out + "/demo.py")
    meta.update({"breaks_property": pid, "confirmed": {
        "how": "scratch worktree of /repo HEAD: demo exits 0 unpatched and 1 patched; full pinned test suite (tools/baseline_check.py) passes with the patch",
        "baseline": result["baseline"]}})
    json.dump(meta, open(out + "/meta.json", "w"), indent=1)
