#!/usr/bin/env python3
"""Regenerate /verif/MANIFEST.json from the table below (kept in one place so it stays valid)."""
import json, os
HERE = os.path.dirname(os.path.dirname(os.path.abspath(__file__)))
CHECKS = {
 "C09": dict(
  text="Bounded symbolic model checking of Feature.get_sub_location_from_protein_coordinates / convert_protein_position_to_dna on genes with 1-3 exons and origin-spanning two-exon genes, either strand, symbolic exon boundaries (lengths not multiples of three), symbolic protein range: result has three bases per residue, the gene's strand, lies in the record, and for every position t the t-th base of the result in reading order is the (3s+t)-th coding base of the gene; of the TTA codon marker placement; and of codon_start handling in CDSFeature.from_biopython/to_biopython (reading frame starts codon_start-1 bases in; written location and qualifier are the originals).",
  note="'Extract and translate gives that stretch of the translation' is reduced to base-for-base equality of coding-order positions (Bio's extract concatenates parts in order, reverse-complementing on strand -1: trusted). Known finding C09-1 (TTA marker by start+offset) is reported as KNOWN-FINDING. Prepeptide.to_biopython's leader / core / tail locations are explored as a fourth harness (gene of 1-2 exons or origin-spanning, either strand, symbolic length; leader 0-2, tail 0-1 residues): they split the coding bases in reading order, three per residue.",
  ref="3/C09"),
 "C10": dict(
  text="Bounded symbolic model checking, at object level, of the GenBank path (Record.to_biopython -> Record.from_biopython with every feature class's to/from_biopython) and the JSON path (record_to_json / feature_to_json -> record_from_json / feature_from_json / location_from_string) on a record with a gene, 1-2 (thorough: 3) protoclusters (core inside extent, optionally origin-spanning, optionally identical coordinates), the candidate clusters and regions the real formation code builds, and an optional subregion, all coordinates and the record length symbolic: the reloaded record has the same genes, protoclusters (product, location, core, cutoff, neighbourhood, number), candidates (kind, location, members, number), subregions and regions (location, candidate and subregion numbers, number) and gene-to-region links; converting the reloaded record again gives an identical feature table (fixed point); a second reload equals the first. A second harness does the same for every other feature class with its own to/from pair, one kind per variant on a gene of symbolic shape (simple / two exons / origin-spanning, either strand): gene functions + sec_met + NRPS/PKS qualifiers, PFAM domains with GO terms, plain and modular aSDomains, antiSMASH-made and external CDS motifs, prepeptides (every leader / tail combination), aSModules, gene / source / misc features with notes, codon_start genes with notes, sideloaded protoclusters / subregions; annotation coordinates, protein coordinates and insertion orders symbolic; additionally: writing twice gives the same output and leaves the record unchanged, same object-level annotations after each reload.",
  note="The text layers - Bio.SeqIO GenBank writer/parser and json.dumps/loads - are modelled as a copy of the feature / JSON tree and are outside the claim, as are free-text contents (descriptions, names, scores are fixed typical values: parsing arbitrary text with regular expressions is out of reach) and the sequence content (a length carrier).",
  ref="3/C10"),
 "C11": dict(
  text="Bounded symbolic model checking, at object level, of save / regenerate cycles: RuleDetectionResults + CDSResults (one protocluster with symbolic core/extent/cutoff/neighbourhood, simple or origin-spanning; saved schema version symbolic), TTAResults (codon positions, record GC content and old/new thresholds symbolic reals, schema symbolic), HmmerResults.from_json + refilter (2 hits with symbolic coordinates / scores / e-values, old and new max e-value / min score symbolic, record id and schema matching or not) NRPS/PKS Module.to_json/from_json (symbolic domain names, lengths 2-3 and carrier-protein-led length 4), SideloadedResults (one protocluster and one subregion annotation with symbolic coordinates / neighbourhoods on linear and circular records, schema symbolic) and NRPSPKSDomains (generate_domains with the HMMER calls stubbed by symbolic hits -> JSON -> from_json on a fresh record copy -> add_to_record: fixed architectures incl. a module merged over two genes and loader-only modules, symbolic gene locations and protein coordinates, schema / record id matching or not): results saved, regenerated and saved again are identical trees, the regenerated results add the same features, results of another schema version / record are discarded, looser settings are refused and stricter ones refiltered exactly.",
  note="JSON text (json.dumps/loads) is identity on the tree; main.run_module orchestration, JSON-schema validation of sideloaded files, the HMMER runs themselves and the remaining modules are outside the claim.",
  ref="3/C11"),
 "C12": dict(
  text="Bounded symbolic model checking of write_to_genbank / _build_base_record / _build_record_from_cross_origin / _adjust_features / _adjust_protocluster / _adjust_motif on a region (simple or origin-spanning) with a protocluster, candidate cluster, optional subregion, a gene (simple or origin-spanning on either strand) and a prepeptide-style motif, with symbolic coordinates and record length and - the point of doing it symbolically - symbolic record-wide numbers of the areas (any region of any record): the extract has the region's length, contains every feature shifted so that it covers the same bases (for all x), all numbers and cross references are renumbered from 1 consistently, core/leader locations are shifted with the region, and the full record's locations and qualifiers are unchanged afterwards.",
  note="Object level only: SeqRecord slicing/concatenation is modelled on the feature table (FakeSeqRecord, following Biopython's documented behaviour), seqio.write is captured at call time; GenBank text and re-parsing are outside the claim. A second harness takes the region the real formation code builds from two protoclusters (several candidate clusters referring to several protoclusters, optionally origin-spanning, with a real prepeptide of leader, core and tail) with all record-wide numbers raised by symbolic offsets: numbers in the extract are 1..k and distinct, every reference resolves to the renumbered feature, leader / tail / core locations move with the region.",
  ref="3/C12"),
 "C13": dict(
  text="Bounded symbolic model checking of refine_hmmscan_results (both modes) with its helpers, of filter_results / filter_result_multiple and of hmmer.remove_overlapping on k <= 3 (quick) / 4 (thorough) hits with symbolic coordinates (ints) and scores / e-values (reals), every profile assignment over 2-3 profiles, every input order and every set-iteration numbering: results ordered by position, identical for every order, kept hits are inputs or spanning same-profile merges with best score, no two kept hits overlap beyond the margin, dropped hits have a better-ranked overlapping kept hit, one survivor per overlap group / profile.",
  note="Profile lengths 15/35 and cutoffs 20/30 are concrete; set iteration order is modelled as harness-chosen (every order supplied); doubles that are nearest to simple fractions are read as those fractions (DESIGN 1.4). In `refine` the result must additionally equal an independent transcription of the documented rules (one-domain span < 1.5 profile lengths, overlap margin 20% of the longer profile, half / third completeness) executed on the same symbolic hits. For refine_hmmscan_results the sentence 'dropped only if a better-ranked overlapping hit is kept ...' is not claimed at property level (normal mode keeps one run per profile by design; see DESIGN section 2). Known finding C13-1 (greedy comparison against the last kept hit only) is reported as KNOWN-FINDING, anything outside its region is a violation.",
  ref="3/C13"),
 "C14": dict(
  text="Bounded symbolic model checking of build_modules_for_cds / Module.add_component / ensure_suitable / is_complete / to_json+from_json and combine_modules with every domain NAME symbolic over the full alphabet of CLASSIFICATIONS (~70 names; membership tests on the re-wrapped constant sets are decided by the solver, so paths are behaviour classes) and symbolic KS subtype: sequences of length <= 3 (quick, plus length-4 sequences starting with two carrier proteins) / 4 (thorough); construction never fails, domains partitioned in order without loss, every documented layout rule per module, is_complete iff documented, module rebuilt from its saved form identical; adjacent gene pairs: merge only on the same strand, only of an incomplete trailing module, only if the result is complete, all domains kept in order.",
  note="Domain coordinates are fixed (increasing); get_monomer strings are not claimed; the module merged over two genes is checked against the same layout rules; `str` is replaced inside the modules under test by a variant that leaves symbolic names symbolic.",
  ref="3/C14"),
 "C15": dict(
  text="Bounded symbolic model checking of scan_orfs on windows of concrete length <= 10 (quick) / 12 (thorough) whose every base is symbolic over {A,C,G,T,N,a,t,g}, both directions, symbolic offset (incl. negative: windows crossing the origin), record length and minimum length, against an independent reference scanner written as formulas over the codon predicates: every reported location is a real ORF and, extracted on its strand in part order, visits exactly the ORF's bases in reading order (for all positions t); every ORF is reported; and of find_intergenic_areas on <= 3 genes (nested/overlapping) with symbolic coordinates, padding and minimum length.",
  note="'At least the minimum length' is read as pinned by the repository's own test (last base - first base >= minimum). find_all_orfs glue (slicing a real Seq) and translation text are outside the claim; record length > window length.",
  ref="3/C15"),
 "C17": dict(
  text="Bounded symbolic model checking with SET ITERATION ORDER AS AN EXPLICIT SYMBOLIC INPUT: the `set` used by each stage (and, through one fixed AST rewrite, its set displays / comprehensions) iterates in an order chosen by symbolic variables, so the solver ranges over every order any PYTHONHASHSEED or memory layout could produce, jointly with symbolic hit coordinates / scores (ties included) and gene coordinates. Stages: refine_hmmscan_results (k <= 3 hits), hmmer.remove_overlapping (k <= 3), filter_results + filter_result_multiple (k = 3), find_protoclusters + record numbering + Region.get_unique_protoclusters + CDSResults.to_json (2 rules on 2 genes incl. equal-coordinate opposite-strand genes). Obligation per path: the stage's output under the symbolic order equals its output under plain insertion order.",
  note="Hash seed and memory layout reach these stages only through set iteration order (dict and list order are deterministic in CPython); whole-pipeline byte identity of files, timestamps and C extensions are outside the claim. Candidate formation's internal sets are varied by C05's renamed products instead. A counterexample is replayed with the model's order on the real stage (ASet), not by searching hash seeds.",
  ref="3/C17"),
 "C19": dict(
  text="Bounded symbolic model checking of build_area_rows / pack / Row / adjust_cross_origin_area / Area on regions built by the real formation code from <= 2 protoclusters (core inside extent, extent and optionally core spanning the origin) and an optional subregion with symbolic coordinates and record length (linear, circular, origin-spanning and whole-record regions): every protocluster / shown candidate / subregion is drawn once or as two halves with the same group; same-row areas do not overlap; every extent lies in the announced range; a protocluster's core lies inside its extent; and for every genome position x the drawn extent and core, in drawing coordinates (positions after the origin shifted by the record length), are exactly the feature's extent and core.",
  note="Genes (convert_cds_features) need the HTML description builders and are not explored; set iteration order pinned to hash(product); more than 2 protoclusters / 1 subregion are covered only at the level of pack() (three areas, simple or origin-spanning, in the order Region.get_unique_protoclusters supplies them: every area on exactly one row, same-row areas disjoint).",
  ref="3/C19"),
 "C20": dict(
  text="Bounded symbolic checking of AntismashResults.write_to_file / dump_records with the position of the failing JSON conversion as a symbolic integer over every eager (module to_json) and late (converted while the text is produced) conversion of R <= 2 records x M <= 2 modules, plus 'no fault', against an in-memory file system in which opening for writing truncates: a fault is reported and the pre-existing file is byte-for-byte unchanged and never opened; without a fault the new JSON is written; and of prepare_output_directory over all 256 combinations of directory contents / run mode given as symbolic booleans: refuses iff foreign content and not reusing, a refusal changes nothing, only old region GenBank files are ever removed.",
  note="File system and os/glob are models (stubs listed in the evidence); real disks, partial writes and the ordering inside _run_antismash are outside the claim. The input space is finite; the solver's share is the case split on the symbolic fault position / flags and the per-path obligations.",
  ref="3/C20"),
 "C01": dict(
  text="Bounded symbolic model checking of the real rule evaluator (DetectionRule.detect and every Conditions subclass) on condition trees parsed from text by the real Parser: for each enumerated tree (22 quick / ~150 thorough; not/and/or/groups/cds/minimum/minscore over 2 profiles) the evaluation at a gene with 2 neighbours is executed on symbolic gene coordinates, cutoff, record length, hit presence (booleans) and bitscores (reals), and z3 must answer unsat for path /\\ not(documented formula) for met, the reason profiles and the anchoring decision; distance-at-cutoff and across-origin cases are solver-chosen. Plus the inductive step for trees of any depth: each combinator node (group / not-group over 1-3 or-operands, and-chain, cds / not cds around an operand, or-list or and-chain) with stub children whose results are arbitrary symbolic booleans per (gene, local flag), on 3 genes with symbolic geometry: the node returns the documented function of its children's results and exactly their reasons.",
  note="Whole trees are enumerated (the programs axis is sampled, inputs are symbolic); arbitrary depth follows from the combinator step under the stated frame condition (a subtree's result depends only on the gene and the local flag). Details.in_range is explored as a function summary (same code). 3 genes, 2 profiles; minscore inside cds() is outside the documented grammar and not claimed.",
  ref="3/C01"),
 "C02": dict(
  text="Bounded symbolic model checking of the real Parser on the CONDITIONS section given as a stream of tokens whose KINDS are symbolic over the 13 condition token types (identifiers symbolic over {a,b,c,unknown}, integers over {0,1,2,3,150}): streams of <= 5 (quick) / 6 (thorough) fully symbolic tokens plus streams with a concrete opening (cds(, minscore(, minimum(2,, a and cds(, (a or, not (, not cds() and 4/5 symbolic tokens. An independent transcription of the documented grammar (not > and > or, groups, cds, minimum, minscore, rejection of unknown profiles, repeated operands, unbalanced groups, only-negative conditions, minimum count < 1) runs on the same symbolic stream in the same path; on every path: same accept/reject, the parsed tree has the same truth table as the reference tree, and the text regenerated from an accepted rule parses back (real tokeniser) to the same name, distances and meaning. Plus enumerated rule files for SUPERIORS closure, kilobase scaling with multipliers over several files, aliases as textual substitution and whitespace/comments.",
  note="The Tokeniser is bypassed only in the stream harness (a stand-in returns the real header tokens plus the symbolic stream). The rule-files harness enumerates concrete programs (166 texts) - exhaustive inside its list, no symbolic content. Streams longer than the bound, DESCRIPTION/EXAMPLE text and the intended meaning of the shipped rule files are outside the claim.",
  ref="3/C02"),
 "C03": dict(
  text="Bounded symbolic model checking of find_protoclusters and its helpers (_extend_area_location, apply_extenders, remove_redundant_protoclusters, merge_over_origin) on <= 3 (quick) / 4 (thorough) anchoring genes with symbolic coordinates, cutoff, neighbourhood and record length, linear and circular, incl. an origin-spanning gene; spec: same protocluster iff chained by ring distance < cutoff (unrolled closure), every anchor in exactly one core, core = connect-hull, extent = core +- neighbourhood clipped/wrapped; plus a two-rule harness for SUPERIORS with EXTENDERS.",
  note="On a ring the grouping clauses are claimed while every chain group fits in an arc shorter than half the record (C04/C07 wording); cutoff and neighbourhood <= 3x record length (linearised modulus); HMMER hit generation and apply_cluster_rules are covered by C01/C07, not here.",
  ref="3/C03"),
 "C04": dict(
  text="Bounded symbolic model checking of the real secmet.locations / Record location helpers: every feasible path of each function is executed on unbounded symbolic integer coordinates and a symbolic record length, and z3 must answer unsat for pre /\\ path /\\ not(set-of-bases spec) on every path, plus a coverage certificate per explored subtree. Bounds: <= 3 (quick) / 4 (thorough) locations per call, <= 3 parts per location, offsets in (-n, n), extension distance <= n.",
  note="Trusted: z3, CPython int/str round trip, the Biopython ExactPosition shim (identity on symbolic ints) and SimpleLocation.__len__ shim; more than 4 locations / 3 parts, fuzzy positions and mixed-strand compounds are outside the claim.",
  ref="3/C04"),
 "C05": dict(
  text="Bounded symbolic model checking of create_candidates_from_protoclusters and its passes on Pn <= 3 (quick) / 4 (thorough) protoclusters (symbolic core inside symbolic extent, every sharing pattern, every supply order, linear and one origin-spanning protocluster on circular records) plus 4/5/7-protocluster unit layouts (hybrid pairs with identical coordinates; hybrid + two lone protoclusters, two hybrids + one, ...): every protocluster in a candidate; candidate location = exact span of its members; sharing => same chemical hybrid; core overlap chain => same hybrid/interleaved candidate; extent overlap chain => some common candidate; members of each kind linked by the matching relation; singles for unabsorbed protoclusters unless identical coordinates; no duplicate (coordinates, membership); order independence.",
  note="Set iteration order of Protocluster sets is pinned to hash(product) (other orders via renamed products). Known finding C05-1 (promotion of equal-coordinate groups into the stronger candidate) is reported as KNOWN-FINDING. Pn > 4 only through the unit layouts.",
  ref="3/C05"),
 "C06": dict(
  text="Bounded symbolic model checking of Record.create_regions / add_region / Region.__init__ on <= 3 (quick, plus a 4-area linear class and a 4-area ring class with an origin-spanning area) / 4 (thorough) areas (subregions and single-protocluster candidate clusters, simple or origin-spanning) with symbolic coordinates: creation never raises, regions are pairwise disjoint, two areas share a region iff linked by a chain of overlaps (unrolled closure), each region covers exactly the union of its component, numbering follows order; plus all add/clear/create histories of length <= 3 (quick) / 4 (thorough) checked for stale parent links.",
  note="Areas are subregions or candidate clusters with one protocluster (a multi-protocluster candidate still has one span); longer histories and more areas are outside the claim.",
  ref="3/C06"),
 "C07": dict(
  text="Bounded symbolic model checking of (a) apply_cluster_rules on rulesets whose cutoffs follow every two-cutoff pattern (AB .. BBA; the per-cutoff cache and wrap-point handling) against each rule evaluated alone and against 'fires iff the partner gene is closer than the cutoff the shorter way round', for two genes with symbolic coordinates on records larger than / comparable to / smaller than the cutoffs (thorough: fully symbolic sizes for pattern ABA); (b) origin rotation: a circular record with two anchoring genes and the same record re-indexed at any origin k (incl. cutting a gene, which becomes a two-part gene by the specification of rotation) both go through find_protoclusters in one symbolic path and must group the genes identically whenever the protoclusters span less than half the record.",
  note="Rule evaluation itself is C01, grouping for 3-4 genes is C03, candidate/region stages on origin-spanning inputs are C05/C06; here: 2 genes, <= 3 rules, 2 distinct cutoffs, neighbourhood 0 in the rotation harness.",
  ref="3/C07"),
 "C08": dict(
  text="Bounded symbolic model checking of Record.get_cds_features_within_location (G <= 3 quick / 4 thorough genes incl. nested, equal-start, spliced and origin-crossing genes; simple and origin-spanning queries; with_overlapping both) against the containment / shares-a-base spec per gene, and of the add_cds_feature / add_protocluster / add_subregion / create_regions interleavings (6 quick / 60 thorough orders) against 'each area lists exactly the genes it contains and each gene points to its region'; and of 2 (quick) / 3 (thorough) subregions forming 1..3 regions with two genes added before, after or around create_regions (genes exactly at a region's start / equal to a region included): each gene points to exactly the region containing it and is listed there.",
  note="Coordinates and record length are unbounded symbolic ints; gene count, exon count (<= 2) and number of areas are bounded as stated.",
  ref="3/C08"),
}
NOT_APPLICABLE = {
 "C16": "the sanitisation code is str-method / regex / f-string / set-of-str code: CrossHair 0.0.110 (the only installed engine with symbolic str) finds counterexamples through the real pre_process_sequences within seconds (that is how the fixed collision defect was found, see known_findings.json) but cannot CONFIRM any bound - even one 2-character id through fix_record_name_id alone is 'Not confirmed' after 120 s, and two 3-character ids hit an internal CrossHair error - and the own z3 executor has no string theory behind CPython's C-level str methods; a check that can never return a sound pass is not registered (sx/xhair.py is kept as an unregistered counterexample search)",
 "C18": "parallel_function is a thin wrapper over multiprocessing.Pool.starmap_async and pickle (C code) plus OS scheduling; there is nothing of antiSMASH to execute symbolically, and a stub honouring Pool's documented contract would make the property true by assumption",
}
PENDING_REASON = "check not built yet in this revision (solver-based harness planned, see DESIGN.md section 3); not claimed until its check exists"

def main():
    props = [json.loads(l)["id"] for l in open(os.path.join(HERE, "properties.jsonl"))]
    checks = []
    for pid in props:
        if pid not in CHECKS:
            continue
        c = CHECKS[pid]
        checks.append({
            "property_id": pid,
            "quick_cmd": "./sx.sh check %s --tier quick" % pid,
            "thorough_cmd": "./sx.sh check %s --tier thorough" % pid,
            "evidence_file": "evidence/%s.json" % pid,
            "replay_cmd_template": "/venv/bin/python {path}",
            "engine": c.get("engine", "sx"),
            "level_claimed": {"category": "model_checking", "text": c["text"], "design_ref": c["ref"]},
            "level_note": c["note"],
            "technique": c.get("technique", "bounded symbolic execution of the real Python functions with z3 (path exploration + per-path unsat obligations + coverage certificates), counterexamples replayed on the real code"),
        })
    na = []
    for pid in props:
        if pid in CHECKS:
            continue
        na.append({"property_id": pid, "reason": NOT_APPLICABLE.get(pid, PENDING_REASON)})
    m = {
        "version": 1,
        "setup_cmd": "./bootstrap.sh",
        "hooks": {
            "guard": "ANTISMASH_VERIF",
            "enable": "no source hooks: the harness process imports /repo's working tree as is and replaces builtins only inside its own process (ANTISMASH_VERIF=1 is exported by sx.sh but nothing in /repo reads it)",
            "baseline_off_cmd": "cd /repo && /venv/bin/python -m pytest -ra -q -p no:cacheprovider --timeout=900 --continue-on-collection-errors",
            "source_commits": [],
            "add_only": True,
        },
        "engines": [
            {"name": "sx", "path": "sx/", "serves_properties": [p for p in props if p in CHECKS and CHECKS[p].get("engine", "sx") == "sx"],
             "kind_free_text": "own path-exploring symbolic executor for Python on z3 (symbolic ints/bools/reals, DFS with deterministic replay, 16 worker processes)"},
            {"name": "crosshair", "path": "sx/xhair.py", "serves_properties": [p for p in props if p in CHECKS and CHECKS[p].get("engine") == "crosshair"],
             "kind_free_text": "CrossHair 0.0.110 (symbolic str inputs)"},
        ],
        "checks": checks,
        "not_applicable": na,
        "notes": "All checks are bounded: see DESIGN.md and the per-harness 'bound'/'outside_claim' fields in each evidence file. Exit 2 = inconclusive/harness error (never reported as pass). known_findings.json lists recorded and fixed defects.",
    }
    with open(os.path.join(HERE, "MANIFEST.json"), "w") as fh:
        json.dump(m, fh, indent=1)
    print("checks:", [c["property_id"] for c in checks], "not_applicable:", [n["property_id"] for n in na])

main()
