#!/usr/bin/env python3
"""Regenerate /verif/MANIFEST.json from the table below (kept in one place so it stays valid)."""
import json, os
HERE = os.path.dirname(os.path.dirname(os.path.abspath(__file__)))
CHECKS = {
 "C04": dict(
  text="Bounded symbolic model checking of the real secmet.locations / Record location helpers: every feasible path of each function is executed on unbounded symbolic integer coordinates and a symbolic record length, and z3 must answer unsat for pre /\\ path /\\ not(set-of-bases spec) on every path, plus a coverage certificate per explored subtree. Bounds: <= 3 (quick) / 4 (thorough) locations per call, <= 3 parts per location, offsets in (-n, n), extension distance <= n.",
  note="Trusted: z3, CPython int/str round trip, the Biopython ExactPosition shim (identity on symbolic ints) and SimpleLocation.__len__ shim; more than 4 locations / 3 parts, fuzzy positions and mixed-strand compounds are outside the claim.",
  ref="3/C04"),
}
NOT_APPLICABLE = {
 "C18": "parallel_function is a thin wrapper over multiprocessing.Pool.starmap_async and pickle (C code) plus OS scheduling; there is nothing of antiSMASH to execute symbolically, and a stub honouring Pool's documented contract would make the property true by assumption",
}
PENDING_REASON = "check not built yet in this revision (solver-based harness planned, see DESIGN.md section 3); not claimed until its check exists"

def main():
    props = [json.loads(l)["id"] for l in open(os.path.join(HERE, "properties.jsonl"))]
    checks = []
    for pid in props:
        if pid not in CHECKS:
            continue
        c = CHECKS[pid]
        checks.append({
            "property_id": pid,
            "quick_cmd": "./sx.sh check %s --tier quick" % pid,
            "thorough_cmd": "./sx.sh check %s --tier thorough" % pid,
            "evidence_file": "evidence/%s.json" % pid,
            "replay_cmd_template": "/venv/bin/python {path}",
            "engine": c.get("engine", "sx"),
            "level_claimed": {"category": "model_checking", "text": c["text"], "design_ref": c["ref"]},
            "level_note": c["note"],
            "technique": c.get("technique", "bounded symbolic execution of the real Python functions with z3 (path exploration + per-path unsat obligations + coverage certificates), counterexamples replayed on the real code"),
        })
    na = []
    for pid in props:
        if pid in CHECKS:
            continue
        na.append({"property_id": pid, "reason": NOT_APPLICABLE.get(pid, PENDING_REASON)})
    m = {
        "version": 1,
        "setup_cmd": "./bootstrap.sh",
        "hooks": {
            "guard": "ANTISMASH_VERIF",
            "enable": "no source hooks: the harness process imports /repo's working tree as is and replaces builtins only inside its own process (ANTISMASH_VERIF=1 is exported by sx.sh but nothing in /repo reads it)",
            "baseline_off_cmd": "cd /repo && /venv/bin/python -m pytest -ra -q -p no:cacheprovider --timeout=900 --continue-on-collection-errors",
            "source_commits": [],
            "add_only": True,
        },
        "engines": [
            {"name": "sx", "path": "sx/", "serves_properties": [p for p in props if p in CHECKS and CHECKS[p].get("engine", "sx") == "sx"],
             "kind_free_text": "own path-exploring symbolic executor for Python on z3 (symbolic ints/bools/reals, DFS with deterministic replay, 16 worker processes)"},
            {"name": "crosshair", "path": "sx/xhair.py", "serves_properties": [p for p in props if p in CHECKS and CHECKS[p].get("engine") == "crosshair"],
             "kind_free_text": "CrossHair 0.0.110 (symbolic str inputs)"},
        ],
        "checks": checks,
        "not_applicable": na,
        "notes": "All checks are bounded: see DESIGN.md and the per-harness 'bound'/'outside_claim' fields in each evidence file. Exit 2 = inconclusive/harness error (never reported as pass). known_findings.json lists recorded and fixed defects.",
    }
    with open(os.path.join(HERE, "MANIFEST.json"), "w") as fh:
        json.dump(m, fh, indent=1)
    print("checks:", [c["property_id"] for c in checks], "not_applicable:", [n["property_id"] for n in na])

main()
