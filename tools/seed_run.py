#!/usr/bin/env python3
"""Apply a kept seeded change to a scratch worktree of /repo HEAD, run the property's check against it
(SX_REPO points the check at the worktree), remove the worktree, and record whether it was caught.
usage: seed_run.py <seeded_dir_name> [tier] [PID ...]     (add --in-repo to apply to /repo itself instead)"""
import json, os, subprocess, sys, time
args = [a for a in sys.argv[1:] if not a.startswith("--")]
in_repo = "--in-repo" in sys.argv
name = args[0]; tier = args[1] if len(args) > 1 else "quick"
d = "/verif/seeded/" + name
meta = json.load(open(d + "/meta.json"))
pids = args[2:] or [meta["breaks_property"]]
env = dict(os.environ)
if in_repo:
    tree = "/repo"
    assert subprocess.run("git -C /repo diff --quiet", shell=True).returncode == 0, "/repo has local changes"
else:
    tree = "/tmp/sr_" + name
    subprocess.run("git -C /repo worktree remove --force " + tree, shell=True, capture_output=True)
    assert subprocess.run("git -C /repo worktree add -q --detach %s HEAD" % tree, shell=True).returncode == 0
    env["SX_REPO"] = tree
res = {}
try:
    assert subprocess.run("git -C %s apply %s/patch.diff" % (tree, d), shell=True).returncode == 0
    for pid in pids:
        t = time.time()
        p = subprocess.run("./sx.sh check %s --tier %s" % (pid, tier), shell=True, cwd="/verif", text=True, capture_output=True, env=env)
        viol = [l for l in p.stdout.splitlines() if l.startswith("VIOLATION") or l.startswith("  harness=")]
        res[pid] = {"exit": p.returncode, "wall_s": round(time.time() - t, 1), "first_violation": [v[:400] for v in viol[:2]],
                    "inconclusive": [l[:300] for l in p.stdout.splitlines() if l.startswith("INCONCLUSIVE")][:2]}
finally:
    if in_repo:
        subprocess.run("git -C /repo checkout -- .", shell=True)
    else:
        subprocess.run("git -C /repo worktree remove --force " + tree, shell=True)
meta.setdefault("checks_run", {})
for pid, r_ in res.items():
    meta["checks_run"]["%s/%s" % (pid, tier)] = r_
meta["detected"] = any(r_["exit"] == 1 for r_ in meta["checks_run"].values())
json.dump(meta, open(d + "/meta.json", "w"), indent=1)
print(name, json.dumps(res, indent=1))
