#!/bin/sh
# ./sx.sh check <ID> --tier quick|thorough
HERE="$(cd "$(dirname "$0")" && pwd)"
"$HERE/bootstrap.sh" || exit 2
export PYTHONDONTWRITEBYTECODE=1 PYTHONHASHSEED=0 ANTISMASH_VERIF=1
if [ -n "$SX_REPO" ]; then export PYTHONPATH="$SX_REPO${PYTHONPATH:+:$PYTHONPATH}"; fi
cd "$HERE" && exec "$HERE/.venv/bin/python" -m sx "$@"
